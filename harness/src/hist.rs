//! History checkers (M5): linearizability of (pointer, tag) cells and of the FIFO queue.

use std::collections::HashSet;

// ---------------------------------------------------------------------------------------------
// Cells

/// A cell value: object id (0 = null) and user tag.
pub type Val = (u32, u8);

#[derive(Clone, Debug, PartialEq, Eq)]
pub enum CellCall {
    Load,
    Store(Val),
    Swap(Val),
    /// expected, desired, weak (may fail spuriously by contract)
    Cas(Val, Val, bool),
    /// expected, new tag
    CasTag(Val, u8),
}

#[derive(Clone, Debug, PartialEq, Eq)]
pub enum CellRet {
    Unit,
    Val(Val),
    /// success: previous content
    Ok(Val),
    /// failure: current content
    Err(Val),
    /// never returned (not used by the interpreter, kept for completeness)
    Pending,
}

#[derive(Clone, Debug)]
pub struct CellOp {
    pub cell: u64,
    pub thread: u32,
    pub call: CellCall,
    pub ret: CellRet,
    pub inv: u64,
    pub res: u64,
}

/// Applies `op` to `state`; returns the new state if the recorded result is possible.
fn cell_step(state: Val, op: &CellOp) -> Option<Val> {
    match (&op.call, &op.ret) {
        (CellCall::Load, CellRet::Val(v)) => (*v == state).then_some(state),
        (CellCall::Store(v), CellRet::Unit) => Some(*v),
        (CellCall::Swap(v), CellRet::Val(old)) => (*old == state).then_some(*v),
        (CellCall::Cas(exp, des, _weak), CellRet::Ok(old)) => {
            (state == *exp && *old == state).then_some(*des)
        }
        (CellCall::Cas(exp, _des, weak), CellRet::Err(cur)) => {
            if *cur != state {
                None
            } else if state != *exp {
                Some(state)
            } else if *weak {
                // spurious failure allowed by the contract of compare_exchange_weak
                Some(state)
            } else {
                None
            }
        }
        (CellCall::CasTag(exp, tag), CellRet::Ok(old)) => {
            (state == *exp && *old == state).then_some((state.0, *tag))
        }
        (CellCall::CasTag(exp, _), CellRet::Err(cur)) => (*cur == state && state != *exp).then_some(state),
        (_, CellRet::Pending) => Some(state),
        _ => None,
    }
}

pub enum LinResult {
    Ok,
    Violation(String),
    Inconclusive,
}

/// Wing–Gong search with memoisation on (set of linearized ops, state). `ops` of one cell.
pub fn check_cell(init: Val, ops: &[CellOp], budget: &mut u64) -> LinResult {
    let n = ops.len();
    if n == 0 {
        return LinResult::Ok;
    }
    if n > 62 {
        return LinResult::Inconclusive;
    }
    let mut seen: HashSet<(u64, Val)> = HashSet::new();
    fn rec(
        ops: &[CellOp],
        done: u64,
        state: Val,
        seen: &mut HashSet<(u64, Val)>,
        budget: &mut u64,
    ) -> Option<bool> {
        let n = ops.len();
        if done == (1u64 << n) - 1 {
            return Some(true);
        }
        if !seen.insert((done, state)) {
            return Some(false);
        }
        if *budget == 0 {
            return None;
        }
        *budget -= 1;
        // the earliest response among pending ops bounds which ops may go first
        let mut min_res = u64::MAX;
        for i in 0..n {
            if done & (1 << i) == 0 && ops[i].res < min_res {
                min_res = ops[i].res;
            }
        }
        for i in 0..n {
            if done & (1 << i) != 0 {
                continue;
            }
            if ops[i].inv > min_res {
                continue;
            }
            if let Some(ns) = cell_step(state, &ops[i]) {
                match rec(ops, done | (1 << i), ns, seen, budget) {
                    Some(true) => return Some(true),
                    Some(false) => {}
                    None => return None,
                }
            }
        }
        Some(false)
    }
    match rec(ops, 0, init, &mut seen, budget) {
        Some(true) => LinResult::Ok,
        Some(false) => {
            let mut s = format!("init={:?}; ", init);
            let mut sorted: Vec<&CellOp> = ops.iter().collect();
            sorted.sort_by_key(|o| o.inv);
            for o in sorted {
                s.push_str(&format!(
                    "[t{} {:?} -> {:?} @{}..{}] ",
                    o.thread, o.call, o.ret, o.inv, o.res
                ));
            }
            LinResult::Violation(s)
        }
        None => LinResult::Inconclusive,
    }
}

/// Number of pairs of overlapping mutators in a cell history (relevance measure).
pub fn overlapping_mutators(ops: &[CellOp]) -> usize {
    let mut k = 0;
    for i in 0..ops.len() {
        for j in i + 1..ops.len() {
            let (a, b) = (&ops[i], &ops[j]);
            if a.thread != b.thread
                && a.call != CellCall::Load
                && b.call != CellCall::Load
                && a.inv < b.res
                && b.inv < a.res
            {
                k += 1;
            }
        }
    }
    k
}

// ---------------------------------------------------------------------------------------------
// Queue

#[derive(Clone, Debug, PartialEq, Eq)]
pub enum QCall {
    Push(u64),
    Pop,
    /// predicate: v % k == r
    PopIf(u64, u64),
}

#[derive(Clone, Debug)]
pub struct QOp {
    pub thread: u32,
    pub call: QCall,
    pub ret: Option<u64>,
    pub inv: u64,
    pub res: u64,
}

fn q_step(state: &mut Vec<u64>, op: &QOp) -> bool {
    match (&op.call, op.ret) {
        (QCall::Push(v), None) => {
            state.push(*v);
            true
        }
        (QCall::Pop, None) => state.is_empty(),
        (QCall::Pop, Some(v)) => {
            if state.first() == Some(&v) {
                state.remove(0);
                true
            } else {
                false
            }
        }
        (QCall::PopIf(k, r), None) => match state.first() {
            None => true,
            Some(h) => h % k != *r,
        },
        (QCall::PopIf(k, r), Some(v)) => {
            if state.first() == Some(&v) && v % k == *r {
                state.remove(0);
                true
            } else {
                false
            }
        }
        _ => false,
    }
}

pub fn check_queue(init: &[u64], ops: &[QOp], budget: &mut u64) -> LinResult {
    let n = ops.len();
    if n > 62 {
        return LinResult::Inconclusive;
    }
    let mut seen: HashSet<(u64, Vec<u64>)> = HashSet::new();
    fn rec(
        ops: &[QOp],
        done: u64,
        state: &Vec<u64>,
        seen: &mut HashSet<(u64, Vec<u64>)>,
        budget: &mut u64,
    ) -> Option<bool> {
        let n = ops.len();
        if done == (1u64 << n) - 1 {
            return Some(true);
        }
        if !seen.insert((done, state.clone())) {
            return Some(false);
        }
        if *budget == 0 {
            return None;
        }
        *budget -= 1;
        let mut min_res = u64::MAX;
        for i in 0..n {
            if done & (1 << i) == 0 && ops[i].res < min_res {
                min_res = ops[i].res;
            }
        }
        for i in 0..n {
            if done & (1 << i) != 0 || ops[i].inv > min_res {
                continue;
            }
            let mut ns = state.clone();
            if q_step(&mut ns, &ops[i]) {
                match rec(ops, done | (1 << i), &ns, seen, budget) {
                    Some(true) => return Some(true),
                    Some(false) => {}
                    None => return None,
                }
            }
        }
        Some(false)
    }
    let st = init.to_vec();
    match rec(ops, 0, &st, &mut seen, budget) {
        Some(true) => LinResult::Ok,
        Some(false) => {
            let mut s = format!("init={:?}; ", init);
            let mut sorted: Vec<&QOp> = ops.iter().collect();
            sorted.sort_by_key(|o| o.inv);
            for o in sorted {
                s.push_str(&format!("[t{} {:?} -> {:?} @{}..{}] ", o.thread, o.call, o.ret, o.inv, o.res));
            }
            LinResult::Violation(s)
        }
        None => LinResult::Inconclusive,
    }
}
