//! Monitors: object table (ledger counters, exactly-once counters, stamps), event hook,
//! violation reporting, guard registry.

use crate::json::{Counts, J};
use crate::sched;
use circ::verif::event as E;
use std::collections::HashMap;
use std::sync::atomic::{AtomicBool, AtomicI32, AtomicI64, AtomicU32, AtomicU64, AtomicUsize, Ordering::*};
use std::sync::Mutex;

pub const MAX_OBJ: usize = 1 << 14;

pub struct Obj {
    pub addr: AtomicUsize,
    pub payload: AtomicUsize,
    // ledger (under-approximation of the owners)
    pub rc: AtomicI32,
    pub bulk: AtomicI32,
    pub snap: AtomicI32,
    pub weak: AtomicI32,
    pub wsnap: AtomicI32,
    /// snapshots currently held under live guards, by origin (see `ORIGINS`)
    pub snap_by: [AtomicI32; 8],
    /// snapshots held by a payload destructor that runs during collection (open finding D10)
    pub snap_dtor_ctx: AtomicI32,
    // exactly-once counters
    pub pop: AtomicU32,
    pub drop: AtomicU32,
    pub dealloc: AtomicU32,
    pub dset: AtomicU32,
    pub dbegin: AtomicU32,
    pub depth: AtomicU32,
    pub td: AtomicU32,
    // stamps (0 = not happened)
    pub dset_stamp: AtomicU64,
    pub dbegin_stamp: AtomicU64,
    pub drop_end_stamp: AtomicU64,
    pub first_fail_upgrade_ret: AtomicU64,
    // bookkeeping for "relevant event" classification
    pub touched: AtomicU32,
    pub had_snap: AtomicBool,
    pub had_weak: AtomicBool,
    pub inc_from_zero: AtomicBool,
    /// created by a bulk constructor or receiver of `weak_many` (signature suffix `|bulk`, used by C10)
    pub bulkish: AtomicBool,
}

impl Obj {
    const fn new() -> Self {
        Obj {
            addr: AtomicUsize::new(0),
            payload: AtomicUsize::new(0),
            rc: AtomicI32::new(0),
            bulk: AtomicI32::new(0),
            snap: AtomicI32::new(0),
            weak: AtomicI32::new(0),
            wsnap: AtomicI32::new(0),
            snap_by: [const { AtomicI32::new(0) }; 8],
            snap_dtor_ctx: AtomicI32::new(0),
            pop: AtomicU32::new(0),
            drop: AtomicU32::new(0),
            dealloc: AtomicU32::new(0),
            dset: AtomicU32::new(0),
            dbegin: AtomicU32::new(0),
            depth: AtomicU32::new(0),
            td: AtomicU32::new(0),
            dset_stamp: AtomicU64::new(0),
            dbegin_stamp: AtomicU64::new(0),
            drop_end_stamp: AtomicU64::new(0),
            first_fail_upgrade_ret: AtomicU64::new(0),
            touched: AtomicU32::new(0),
            had_snap: AtomicBool::new(false),
            had_weak: AtomicBool::new(false),
            inc_from_zero: AtomicBool::new(false),
            bulkish: AtomicBool::new(false),
        }
    }
    fn reset(&self) {
        self.addr.store(0, Relaxed);
        self.payload.store(0, Relaxed);
        self.rc.store(0, Relaxed);
        self.bulk.store(0, Relaxed);
        self.snap.store(0, Relaxed);
        self.weak.store(0, Relaxed);
        self.wsnap.store(0, Relaxed);
        for x in &self.snap_by {
            x.store(0, Relaxed);
        }
        self.snap_dtor_ctx.store(0, Relaxed);
        self.pop.store(0, Relaxed);
        self.drop.store(0, Relaxed);
        self.dealloc.store(0, Relaxed);
        self.dset.store(0, Relaxed);
        self.dbegin.store(0, Relaxed);
        self.depth.store(0, Relaxed);
        self.td.store(0, Relaxed);
        self.dset_stamp.store(0, Relaxed);
        self.dbegin_stamp.store(0, Relaxed);
        self.drop_end_stamp.store(0, Relaxed);
        self.first_fail_upgrade_ret.store(0, Relaxed);
        self.touched.store(0, Relaxed);
        self.had_snap.store(false, Relaxed);
        self.had_weak.store(false, Relaxed);
        self.bulkish.store(false, Relaxed);
        self.inc_from_zero.store(false, Relaxed);
    }
}

pub static OBJS: [Obj; MAX_OBJ] = [const { Obj::new() }; MAX_OBJ];
static NEXT_ID: AtomicU32 = AtomicU32::new(1);
static ADDRS: Mutex<Option<HashMap<usize, u32>>> = Mutex::new(None);
static STAMP: AtomicU64 = AtomicU64::new(1);

/// Outstanding reference-counting-layer deferrals (RC_DEFER − entries of the deferred functions).
pub static RC_PENDING: AtomicI64 = AtomicI64::new(0);
pub static LIVE_BLOCKS: AtomicI64 = AtomicI64::new(0);
pub static EV_COUNTS: [AtomicU64; 32] = [const { AtomicU64::new(0) }; 32];
/// Number of monitor evaluations by rule (how often each oracle was actually consulted).
pub static EVALS: Mutex<Option<Counts>> = Mutex::new(None);

thread_local! {
    static LOCAL_EVALS: std::cell::RefCell<[u64; 64]> = const { std::cell::RefCell::new([0; 64]) };
}

pub fn stamp() -> u64 {
    STAMP.fetch_add(1, SeqCst)
}
pub fn now() -> u64 {
    STAMP.load(SeqCst)
}

pub fn obj(id: u32) -> &'static Obj {
    &OBJS[id as usize % MAX_OBJ]
}
pub fn n_objs() -> u32 {
    NEXT_ID.load(SeqCst)
}

/// Resets the object table (between executions; nothing may be live).
pub fn reset_objs() {
    let n = NEXT_ID.load(SeqCst).min(MAX_OBJ as u32);
    for i in 0..n as usize {
        OBJS[i].reset();
    }
    NEXT_ID.store(1, SeqCst);
    let mut g = ADDRS.lock().unwrap();
    *g = Some(HashMap::new());
}

pub fn new_id() -> u32 {
    let id = NEXT_ID.fetch_add(1, SeqCst);
    if id as usize >= MAX_OBJ {
        harness_error("object table exhausted");
    }
    id
}

pub fn register(id: u32, addr: usize, payload: usize) {
    let o = obj(id);
    o.addr.store(addr, SeqCst);
    o.payload.store(payload, SeqCst);
    let mut g = ADDRS.lock().unwrap();
    g.get_or_insert_with(HashMap::new).insert(addr, id);
}

pub fn id_of_addr(addr: usize) -> Option<u32> {
    let g = ADDRS.lock().unwrap();
    g.as_ref().and_then(|m| m.get(&addr).copied())
}

// ---------------------------------------------------------------------------------------------
// Execution context and violation reporting

pub struct Ctx {
    pub check: String,
    pub desc: J,
    pub oplogs: Vec<Vec<String>>,
}
pub static CTX: Mutex<Option<Ctx>> = Mutex::new(None);
pub static LOG_OPS: AtomicBool = AtomicBool::new(true);

pub fn set_ctx(check: &str, desc: J, nthreads: usize) {
    let mut g = CTX.lock().unwrap_or_else(|p| p.into_inner());
    *g = Some(Ctx {
        check: check.to_string(),
        desc,
        oplogs: vec![Vec::new(); nthreads + 1],
    });
}

pub fn oplog(t: u32, s: String) {
    if !LOG_OPS.load(Relaxed) {
        return;
    }
    let mut g = CTX.lock().unwrap_or_else(|p| p.into_inner());
    if let Some(c) = g.as_mut() {
        let n = c.oplogs.len();
        let i = if (t as usize) < n - 1 { t as usize } else { n - 1 };
        c.oplogs[i].push(s);
    }
}

pub fn take_oplogs() -> Vec<Vec<String>> {
    let mut g = CTX.lock().unwrap_or_else(|p| p.into_inner());
    g.as_mut().map_or(Vec::new(), |c| std::mem::take(&mut c.oplogs))
}

extern "C" {
    fn _exit(code: i32) -> !;
}

pub fn hard_exit(code: i32) -> ! {
    use std::io::Write;
    let _ = std::io::stdout().flush();
    let _ = std::io::stderr().flush();
    if cfg!(miri) {
        std::process::exit(code)
    } else {
        unsafe { _exit(code) }
    }
}

static REPORTING: AtomicBool = AtomicBool::new(false);

/// Reports a violation of `prop` and terminates the process (the state after a violation is
/// meaningless). `sig` is the stable signature used for known-finding matching.
pub fn violation(prop: &str, sig: &str, detail: String) -> ! {
    if REPORTING.swap(true, SeqCst) {
        // another thread is already reporting; park
        loop {
            std::thread::sleep(std::time::Duration::from_millis(50));
        }
    }
    let (check, desc, oplogs) = match CTX.try_lock() {
        Ok(mut g) => match g.as_mut() {
            Some(c) => (c.check.clone(), c.desc.clone(), c.oplogs.clone()),
            None => (String::new(), J::Null, Vec::new()),
        },
        Err(_) => (String::new(), J::Null, Vec::new()),
    };
    let recent: Vec<J> = Vec::new();
    let j = J::obj()
        .set("type", "violation")
        .set("property", prop)
        .set("signature", sig)
        .set("detail", detail)
        .set("check", check)
        .set("exec", desc)
        .set("thread", sched::wid() as u64)
        .set("epoch", circ::verif::global_epoch())
        .set(
            "oplogs",
            J::A(oplogs
                .into_iter()
                .map(|l| {
                    let k = l.len().saturating_sub(200);
                    J::A(l[k..].iter().map(|s| J::S(s.clone())).collect())
                })
                .collect()),
        )
        .set("recent", J::A(recent));
    println!("{}", j.to_string());
    // what this shard had covered before it stopped
    let part = J::obj()
        .set("type", "summary")
        .set("partial", true)
        .set("profile", "partial")
        .set("execs", EXECS_DONE.load(SeqCst))
        .set("inconclusive_cut", 0u64)
        .set("nontrivial_hashes", J::A((0..NONTRIVIAL_DONE.load(SeqCst).min(2000)).map(|i| J::S(format!("partial-{}-{}", std::process::id(), i))).collect()))
        .set("samples", J::A(vec![]));
    println!("{}", part.to_string());
    hard_exit(3)
}

pub static EXECS_DONE: AtomicU64 = AtomicU64::new(0);
pub static NONTRIVIAL_DONE: AtomicU64 = AtomicU64::new(0);

pub fn check_prop() -> &'static str {
    *CHECK_PROP.lock().unwrap()
}

pub fn harness_error(msg: &str) -> ! {
    let j = J::obj().set("type", "harness_error").set("detail", msg);
    println!("{}", j.to_string());
    hard_exit(4)
}

/// Installs a panic hook that turns panics into violation / harness-error records.
/// A panic raised by an assertion inside /repo/src during a legal program refutes the property
/// under check; any other panic is a harness error.
pub static CHECK_PROP: Mutex<&'static str> = Mutex::new("");

/// For pure observers (they do not depend on the state staying sane): fatal only when the
/// violated property is the one under check; otherwise recorded once and the run continues.
pub fn observer_violation(prop: &str, sig: &str, detail: String) {
    let mine = *CHECK_PROP.lock().unwrap() == prop;
    if mine {
        violation(prop, sig, detail);
    } else {
        report(prop, sig, detail);
    }
}

pub fn install_panic_hook(default_prop: &'static str) {
    *CHECK_PROP.lock().unwrap() = default_prop;
    std::panic::set_hook(Box::new(move |info| {
        if crate::ebr::EXPECT_PANIC.with(|p| p.get()) {
            return;
        }
        let loc = info
            .location()
            .map(|l| format!("{}:{}", l.file(), l.line()))
            .unwrap_or_default();
        let msg = if let Some(s) = info.payload().downcast_ref::<&str>() {
            s.to_string()
        } else if let Some(s) = info.payload().downcast_ref::<String>() {
            s.clone()
        } else {
            String::new()
        };
        if loc.starts_with("/repo/src") || loc.starts_with("src/") && !loc.contains("harness") {
            let short = loc.replace("/repo/", "");
            // signature is the file + the asserted expression (line numbers move with edits)
            let first = msg.lines().next().unwrap_or("").chars().take(100).collect::<String>();
            violation(
                default_prop,
                &format!("{}|circ-assertion|{}|{}", default_prop, short.split(':').next().unwrap_or(""), first),
                format!("panic inside circ at {}: {}", loc, msg),
            );
        } else {
            harness_error(&format!("panic at {}: {}", loc, msg));
        }
    }));
}

// ---------------------------------------------------------------------------------------------
// Event hook

pub static DEFAULT_GLOBAL: AtomicUsize = AtomicUsize::new(0);
/// Extra per-check event callback (C13–C16 install their own).
pub static EXTRA_EVENT: Mutex<Option<fn(u16, usize, usize)>> = Mutex::new(None);
static EXTRA_ON: AtomicBool = AtomicBool::new(false);
/// When set, RcInner events for unknown addresses are ignored (sequential checks with their own
/// payload types).
pub static TRACK_OBJS: AtomicBool = AtomicBool::new(true);

pub fn set_extra_event(f: Option<fn(u16, usize, usize)>) {
    EXTRA_ON.store(f.is_some(), SeqCst);
    *EXTRA_EVENT.lock().unwrap() = f;
}

thread_local! {
    pub static CUR_DEPTH: std::cell::Cell<usize> = const { std::cell::Cell::new(0) };
    /// >0 while the thread is inside `Global::collect` (deferred functions run here).
    pub static IN_COLLECT: std::cell::Cell<u32> = const { std::cell::Cell::new(0) };
}

pub fn event_hook(kind: u16, a: usize, b: usize) {
    EV_COUNTS[(kind as usize).min(31)].fetch_add(1, Relaxed);
    match kind {
        E::RC_DEFER => {
            RC_PENDING.fetch_add(1, SeqCst);
        }
        E::TD_ATTEMPT => {
            RC_PENDING.fetch_sub(1, SeqCst);
            if TRACK_OBJS.load(Relaxed) {
                if let Some(id) = id_of_addr(a) {
                    obj(id).td.fetch_add(1, Relaxed);
                }
            }
        }
        E::TRY_DEALLOC => {
            RC_PENDING.fetch_sub(1, SeqCst);
        }
        E::ALLOC => {
            LIVE_BLOCKS.fetch_add(1, SeqCst);
        }
        E::DEALLOC => {
            LIVE_BLOCKS.fetch_sub(1, SeqCst);
            if TRACK_OBJS.load(Relaxed) {
                on_dealloc(a);
            }
        }
        E::DESTRUCTED_SET => {
            if TRACK_OBJS.load(Relaxed) {
                if let Some(id) = id_of_addr(a) {
                    let o = obj(id);
                    o.dset_stamp.store(stamp(), SeqCst);
                    if o.dset.fetch_add(1, SeqCst) != 0 {
                        violation("C04", "C04|destructed-flag-set-twice", format!("obj {} DESTRUCTED set twice", id));
                    }
                }
            }
        }
        E::DESTRUCT_BEGIN => {
            CUR_DEPTH.with(|d| d.set(b));
            if TRACK_OBJS.load(Relaxed) {
                if let Some(id) = id_of_addr(a) {
                    let o = obj(id);
                    o.depth.store(b as u32 + 1, SeqCst);
                }
            }
        }
        E::EPOCH_ADVANCE => {
            if b == DEFAULT_GLOBAL.load(Relaxed) || DEFAULT_GLOBAL.load(Relaxed) == 0 {
                sched::EPOCH_ADV.fetch_add(1, SeqCst);
            }
        }
        E::COLLECT => {
            IN_COLLECT.with(|c| c.set(if b == 0 { c.get() + 1 } else { c.get().saturating_sub(1) }));
        }
        _ => {}
    }
    if EXTRA_ON.load(Relaxed) {
        let f = *EXTRA_EVENT.lock().unwrap();
        if let Some(f) = f {
            f(kind, a, b);
        }
    }
}

fn on_dealloc(addr: usize) {
    let id = {
        let mut g = ADDRS.lock().unwrap();
        g.as_mut().and_then(|m| m.remove(&addr))
    };
    let id = match id {
        Some(i) => i,
        None => return,
    };
    let o = obj(id);
    eval("dealloc-ledger");
    let n = o.dealloc.fetch_add(1, SeqCst);
    if n != 0 {
        violation("C04", "C04|dealloc-twice", format!("obj {} deallocated twice", id));
    }
    if o.drop.load(SeqCst) == 0 && !ALLOW_DEALLOC_BEFORE_DROP.load(Relaxed) {
        violation("C04", "C04|dealloc-before-drop", format!("obj {} deallocated before its destructor ran", id));
    }
    let (rc, bulk, snap, weak, wsnap) = (
        o.rc.load(SeqCst),
        o.bulk.load(SeqCst),
        o.snap.load(SeqCst),
        o.weak.load(SeqCst),
        o.wsnap.load(SeqCst),
    );
    if rc > 0 || bulk > 0 {
        violation("C01", &format!("C01|dealloc-while-strong-owner{}", bulk_tag(id)), format!("obj {} deallocated while ledger has rc={} bulk={}", id, rc, bulk));
    }
    if snap > 0 {
        violation("C02", "C02|dealloc-while-snapshot", format!("obj {} deallocated while {} snapshot(s) under live guards", id, snap));
    }
    if weak > 0 {
        violation("C03", &format!("C03|dealloc-while-weak-owner{}", bulk_tag(id)), format!("obj {} deallocated while ledger has weak={}", id, weak));
    }
    if wsnap > 0 {
        violation("C03", "C03|dealloc-while-weak-snapshot", format!("obj {} deallocated while {} weak snapshot(s) under live guards", id, wsnap));
    }
}

pub static ALLOW_DEALLOC_BEFORE_DROP: AtomicBool = AtomicBool::new(false);

pub fn eval(rule: &'static str) {
    // cheap: hashed slot per thread, flushed by `flush_evals`
    let h = rule_slot(rule);
    LOCAL_EVALS.with(|l| l.borrow_mut()[h] += 1);
}

const RULES: [&str; 40] = [
    "dealloc-ledger", "destruct-ledger", "deref-cookie", "exactly-once", "audit-counts", "audit-final",
    "upgrade-history", "cell-boundary", "cell-scan", "epoch-sample", "guard-model", "closure-once",
    "c13-active-set", "queue-history", "list-history", "bulk-counts", "tag-model", "state-model",
    "modular-model", "e2e-decision", "trait-model", "latency-bound", "stack-survive", "tls-child",
    "cell-lin", "weak-cell-lin", "weak-cell-boundary", "pin-interval", "participant-record", "r2", "r3", "r4", "r5",
    "r6", "r7", "r8", "r9", "r10", "r11", "r12",
];

fn rule_slot(rule: &str) -> usize {
    RULES.iter().position(|r| *r == rule).unwrap_or(63)
}

/// Moves this thread's evaluation counters into the global table.
pub fn flush_evals() {
    LOCAL_EVALS.with(|l| {
        let mut l = l.borrow_mut();
        let mut g = EVALS.lock().unwrap();
        let c = g.get_or_insert_with(Counts::default);
        for (i, v) in l.iter_mut().enumerate() {
            if *v > 0 {
                let name = if i < RULES.len() { RULES[i] } else { "other" };
                c.add(name, *v);
                *v = 0;
            }
        }
    });
}

pub fn evals_json() -> J {
    flush_evals();
    let g = EVALS.lock().unwrap();
    match g.as_ref() {
        Some(c) => c.into(),
        None => J::obj(),
    }
}

pub fn ev_counts_json() -> J {
    let mut j = J::obj();
    for k in 1..21u16 {
        let v = EV_COUNTS[k as usize].load(Relaxed);
        if v > 0 {
            j.put(E::name(k), v);
        }
    }
    j
}

// ---------------------------------------------------------------------------------------------
// Guard registry (for C14 sampling and C02 bookkeeping)

#[derive(Clone, Copy, Debug)]
pub struct GuardRec {
    pub wid: u32,
    pub local: usize,
    pub serial: u64,
}
pub static GUARDS: Mutex<Vec<GuardRec>> = Mutex::new(Vec::new());
static GUARD_SERIAL: AtomicU64 = AtomicU64::new(1);

pub fn guard_register(local: usize) -> u64 {
    let serial = GUARD_SERIAL.fetch_add(1, SeqCst);
    GUARDS.lock().unwrap().push(GuardRec {
        wid: sched::wid(),
        local,
        serial,
    });
    serial
}
pub fn guard_deregister(serial: u64) {
    let mut g = GUARDS.lock().unwrap();
    if let Some(p) = g.iter().position(|r| r.serial == serial) {
        g.swap_remove(p);
    }
}

pub const ORIGINS: [&str; 8] = [
    "load",
    "cas-current",
    "cas_tag",
    "Rc::snapshot",
    "WeakSnapshot::upgrade(strong=0)",
    "WeakSnapshot::upgrade(strong>0)",
    "other",
    "other2",
];

/// Per-check callback run at the start of an object's destruction (cell scans etc.).
pub static ON_DESTRUCT: Mutex<Option<fn(u32, usize)>> = Mutex::new(None);

fn path_name() -> &'static str {
    if CUR_DEPTH.with(|d| d.get()) == 0 {
        "root"
    } else {
        "child"
    }
}

/// Called by the payload's `pop_edges`: the object's destruction begins.
pub fn on_pop_edges(id: u32) {
    let o = obj(id);
    eval("destruct-ledger");
    eval("exactly-once");
    o.dbegin_stamp.store(stamp(), SeqCst);
    if o.pop.fetch_add(1, SeqCst) != 0 {
        violation("C04", "C04|pop_edges-twice", format!("obj {}: pop_edges ran twice", id));
    }
    if o.drop.load(SeqCst) != 0 {
        violation("C04", "C04|pop_edges-after-drop", format!("obj {}: pop_edges after the destructor", id));
    }
    check_owners_at_destruct(id, "destruct");
    let f = *ON_DESTRUCT.lock().unwrap();
    if let Some(f) = f {
        f(id, o.addr.load(SeqCst));
    }
}

/// `|bulk` for objects that went through a bulk constructor / `weak_many`.
pub fn bulk_tag(id: u32) -> &'static str {
    if obj(id).bulkish.load(Relaxed) {
        "|bulk"
    } else {
        ""
    }
}

fn check_owners_at_destruct(id: u32, what: &str) {
    let o = obj(id);
    let (rc, bulk, snap) = (o.rc.load(SeqCst), o.bulk.load(SeqCst), o.snap.load(SeqCst));
    if rc > 0 || bulk > 0 {
        violation(
            "C01",
            &format!("C01|{}-while-strong-owner|{}{}", what, path_name(), bulk_tag(id)),
            format!("obj {}: {} began while the ledger holds rc={} bulk={} (depth {})", id, what, rc, bulk, CUR_DEPTH.with(|d| d.get())),
        );
    }
    if snap > 0 {
        let mut origin = "?";
        for (i, c) in o.snap_by.iter().enumerate() {
            if c.load(SeqCst) > 0 {
                origin = ORIGINS[i];
                break;
            }
        }
        // every holder is a guard taken inside a destructor that runs during collection
        let ctx = if o.snap_dtor_ctx.load(SeqCst) == snap { "|context=destructor-during-collection" } else { "" };
        // Under the C01 check the run goes on: the question there is whether an Rc made from such a Snapshot
        // (`counted()`) refers to a destructed object.
        let f = if check_prop() == "C01" { report } else { violation_nofatal_shim };
        f(
            "C02",
            &format!("C02|{}-while-snapshot|origin={}|{}{}", what, origin, path_name(), ctx),
            format!("obj {}: {} began while {} snapshot(s) under live guards exist (depth {})", id, what, snap, CUR_DEPTH.with(|d| d.get())),
        );
    }
}

fn violation_nofatal_shim(prop: &str, sig: &str, detail: String) {
    violation(prop, sig, detail)
}

/// Called at the start of the payload's `Drop`.
pub fn on_drop(id: u32) {
    let o = obj(id);
    eval("exactly-once");
    if o.drop.fetch_add(1, SeqCst) != 0 {
        violation("C04", "C04|drop-twice", format!("obj {}: destructor ran twice", id));
    }
    if o.pop.load(SeqCst) == 0 {
        violation("C04", "C04|drop-before-pop_edges", format!("obj {}: destructor ran before pop_edges", id));
    }
    check_owners_at_destruct(id, "drop");
}

pub fn on_drop_end(id: u32) {
    obj(id).drop_end_stamp.store(stamp(), SeqCst);
}

// ---------------------------------------------------------------------------------------------
// Non-fatal reporting (sequential / enumerative checks keep going after a violation)

pub static SOFT_VIOLATIONS: AtomicU64 = AtomicU64::new(0);
static SOFT_SEEN: Mutex<Option<std::collections::HashSet<String>>> = Mutex::new(None);

/// Emits a violation record without terminating; one record per distinct signature.
pub fn report(prop: &str, sig: &str, detail: String) {
    SOFT_VIOLATIONS.fetch_add(1, SeqCst);
    let mut g = SOFT_SEEN.lock().unwrap();
    let set = g.get_or_insert_with(Default::default);
    if !set.insert(sig.to_string()) {
        return;
    }
    let j = J::obj()
        .set("type", "violation")
        .set("property", prop)
        .set("signature", sig)
        .set("detail", detail)
        .set("exec", J::obj())
        .set("oplogs", J::A(vec![]));
    println!("{}", j.to_string());
}

// ---------------------------------------------------------------------------------------------
// Block tracker for checks with their own payload types

pub static BLOCKS: Mutex<Option<HashMap<usize, (u32, u32)>>> = Mutex::new(None);

pub fn track_blocks(kind: u16, a: usize, _b: usize) {
    if kind == E::ALLOC || kind == E::DEALLOC {
        let mut g = BLOCKS.lock().unwrap();
        let m = g.get_or_insert_with(HashMap::new);
        let e = m.entry(a).or_insert((0, 0));
        if kind == E::ALLOC {
            // address reuse starts a new life
            *e = (1, 0);
        } else {
            e.1 += 1;
        }
    }
}
pub fn block_state(addr: usize) -> (u32, u32) {
    BLOCKS.lock().unwrap().as_ref().and_then(|m| m.get(&addr).copied()).unwrap_or((0, 0))
}
