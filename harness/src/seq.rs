//! Sequential / enumerative checks: C10 (bulk constructors), C11 (tagging), C12 (count word and
//! modular epoch test), C19 (Eq/Ord/Hash), C06 (reclamation latency).

use crate::json::{Counts, J};
use crate::mon::{self, report};
use crate::rcrun::churn;
use crate::rng::Rng;
use circ::verif::{self, event as E, state_shim as SS, tagged as TG};
use circ::{AtomicRc, AtomicWeak, Rc, RcObject, Snapshot, Weak, WeakSnapshot};
use std::collections::hash_map::DefaultHasher;
use std::collections::HashSet;
use std::hash::{Hash, Hasher};
use std::sync::atomic::{AtomicUsize, Ordering::*};
use std::sync::Arc;

pub struct SeqOut {
    pub evaluations: u64,
    pub distinct: HashSet<u64>,
    pub samples: Vec<J>,
    pub extra: J,
    pub exhaustive: bool,
}

impl SeqOut {
    fn new() -> Self {
        SeqOut { evaluations: 0, distinct: HashSet::new(), samples: Vec::new(), extra: J::obj(), exhaustive: true }
    }
    fn case(&mut self, key: u64, sample: impl FnOnce() -> J) {
        self.evaluations += 1;
        if self.distinct.insert(key) && self.samples.len() < 4 && (self.distinct.len() % 97 == 1) {
            self.samples.push(sample());
        }
    }
}

pub fn summary(name: &str, o: SeqOut, wall: f64) -> J {
    J::obj()
        .set("type", "summary")
        .set("profile", name)
        .set("mode", "sequential")
        .set("execs", o.evaluations)
        .set("inconclusive_cut", 0u64)
        .set("distinct", o.distinct.len())
        .set("nontrivial_hashes", J::A(o.distinct.iter().map(|h| J::S(format!("{:x}", h))).collect()))
        .set("samples", J::A(o.samples))
        .set("detail", o.extra)
        .set("exhaustive", o.exhaustive)
        .set("monitor_evals", mon::evals_json())
        .set("events", mon::ev_counts_json())
        .set("soft_violations", mon::SOFT_VIOLATIONS.load(SeqCst))
        .set("wall_s", wall)
}

fn h(xs: &[u64]) -> u64 {
    let mut a = 0xcbf29ce484222325u64;
    for x in xs {
        a = crate::rng::mix(a, *x);
    }
    a
}

// =============================================================================================
// C10

pub struct Cnt {
    drops: Arc<AtomicUsize>,
    next: AtomicRc<Cnt>,
}
unsafe impl RcObject for Cnt {
    fn pop_edges(&mut self, out: &mut Vec<Rc<Self>>) {
        out.push(self.next.take());
    }
}
impl Drop for Cnt {
    fn drop(&mut self) {
        self.drops.fetch_add(1, SeqCst);
    }
}
fn cnt() -> (Cnt, Arc<AtomicUsize>) {
    let d = Arc::new(AtomicUsize::new(0));
    (Cnt { drops: d.clone(), next: AtomicRc::null() }, d)
}

/// Rounds of pin/flush/unpin until `pred` holds; None if the bound is exceeded.
fn rounds_until(bound: usize, pred: impl Fn() -> bool) -> Option<usize> {
    for r in 0..=bound {
        if pred() {
            return Some(r);
        }
        churn(1);
    }
    None
}

const ROUND_BOUND: usize = 60;

/// Releases `owners` in a seeded order by different means, checking the count after each step.
fn release_all(owners: Vec<Rc<Cnt>>, addr: usize, drops: &Arc<AtomicUsize>, rng: &mut Rng, what: &str, o: &mut Counts) {
    let mut owners = owners;
    // shuffle
    for i in (1..owners.len()).rev() {
        let j = rng.below(i as u64 + 1) as usize;
        owners.swap(i, j);
    }
    let mut cells: Vec<AtomicRc<Cnt>> = Vec::new();
    let mut left = owners.len();
    while let Some(r) = owners.pop() {
        if r.verif_addr() != addr {
            report("C10", &format!("C10|{}-owner-other-object", what), format!("{}: an owner points to another object", what));
        }
        match rng.below(4) {
            0 => drop(r),
            1 => {
                let g = circ::cs();
                r.finalize(&g);
            }
            2 => {
                // park it in a cell; the cell is an owner too and is released later
                cells.push(AtomicRc::from(r));
                continue;
            }
            _ => {
                let c = AtomicRc::<Cnt>::null();
                let g = circ::cs();
                c.store(r, SeqCst, &g);
                c.store(Rc::null(), SeqCst, &g);
            }
        }
        left -= 1;
        mon::eval("bulk-counts");
        if left > 0 {
            let c = unsafe { verif::counts_at::<Cnt>(addr) };
            if c.strong as usize != left || drops.load(SeqCst) != 0 {
                report(
                    "C10",
                    &format!("C10|{}-count-mismatch", what),
                    format!("{}: {} owners left but strong={} drops={}", what, left, c.strong, drops.load(SeqCst)),
                );
                return;
            }
            if rng.chance(1, 3) {
                churn(rng.range(1, 4) as usize);
                if drops.load(SeqCst) != 0 {
                    report("C10", &format!("C10|{}-destructed-early", what), format!("{}: destructed with {} owners left", what, left));
                    return;
                }
            }
        }
    }
    while let Some(c) = cells.pop() {
        left -= 1;
        drop(c);
        if left > 0 {
            let c = unsafe { verif::counts_at::<Cnt>(addr) };
            if c.strong as usize != left || drops.load(SeqCst) != 0 {
                report("C10", &format!("C10|{}-count-mismatch", what), format!("{}: {} owners left but strong={} drops={}", what, left, c.strong, drops.load(SeqCst)));
                return;
            }
        }
    }
    o.inc("release-sequences");
    match rounds_until(ROUND_BOUND, || drops.load(SeqCst) >= 1) {
        Some(_) => {}
        None => report(
            "C10",
            &format!("C10|{}-never-destructed", what),
            format!("{}: all owners released but the object was not destructed within {} collection rounds", what, ROUND_BOUND),
        ),
    }
    churn(8);
    if drops.load(SeqCst) > 1 {
        report("C10", &format!("C10|{}-destructed-twice", what), format!("{}: destructor ran {} times", what, drops.load(SeqCst)));
    }
    let (a, d) = mon::block_state(addr);
    if a == 1 && d != 1 && drops.load(SeqCst) == 1 {
        if rounds_until(ROUND_BOUND, || mon::block_state(addr).1 == 1).is_none() {
            report("C10", &format!("C10|{}-block-not-freed", what), format!("{}: block not freed (deallocs={})", what, d));
        }
    }
}

macro_rules! new_many_case {
    ($n:literal, $rng:expr, $out:expr, $cnts:expr) => {{
        let (c, drops) = cnt();
        let arr: [Rc<Cnt>; $n] = Rc::new_many::<$n>(c);
        mon::eval("bulk-counts");
        let owners: Vec<Rc<Cnt>> = arr.into_iter().collect();
        if $n == 0 {
            // nobody owns the object: it must be destructed after bounded rounds
            match rounds_until(ROUND_BOUND, || drops.load(SeqCst) >= 1) {
                Some(_) => {}
                None => report(
                    "C10",
                    "C10|new_many::<0>-never-destructed",
                    format!("Rc::new_many::<0>: object with no owner was not destructed within {} rounds (leak)", ROUND_BOUND),
                ),
            }
        } else {
            let addr = owners[0].verif_addr();
            let c = unsafe { verif::counts_at::<Cnt>(addr) };
            if c.strong != $n {
                report("C10", "C10|new_many-count-mismatch", format!("new_many::<{}>: strong={} right after construction", $n, c.strong));
            }
            if owners.iter().any(|r| r.is_null() || !r.ptr_eq(&owners[0])) {
                report("C10", "C10|new_many-owner-other-object", format!("new_many::<{}>: owners differ", $n));
            }
            release_all(owners, addr, &drops, $rng, "new_many", $cnts);
        }
        $out.case(h(&[10, $n, $rng.next() % 8]), || J::obj().set("ctor", format!("new_many::<{}>", $n)));
    }};
}

macro_rules! weak_many_case {
    ($n:literal, $tag:expr, $rng:expr, $out:expr) => {{
        let (c, drops) = cnt();
        let rc = Rc::new(c).with_tag($tag);
        let addr = rc.verif_addr();
        let extra: Vec<Weak<Cnt>> = (0..$rng.below(3)).map(|_| rc.downgrade()).collect();
        let before = rc.verif_counts().unwrap();
        let ws: [Weak<Cnt>; $n] = rc.weak_many::<$n>();
        mon::eval("bulk-counts");
        let after = rc.verif_counts().unwrap();
        let reference = rc.downgrade();
        let mut bad = false;
        for w in ws.iter() {
            if w.is_null() || !w.ptr_eq(&reference) || w.tag() != rc.tag() || w.verif_addr() != addr {
                bad = true;
            }
        }
        if bad {
            report("C10", "C10|weak_many-wrong-pointer", format!("weak_many::<{}> returned a pointer that is null / not the receiver / lost the tag", $n));
        }
        if after.weak != before.weak + $n {
            report("C10", "C10|weak_many-count-mismatch", format!("weak_many::<{}>: weak count {} -> {}", $n, before.weak, after.weak));
        }
        let mut all: Vec<Weak<Cnt>> = ws.into_iter().collect();
        all.extend(extra);
        all.push(reference);
        // strong side goes first or last
        let strong_first = $rng.chance(1, 2);
        let mut rc = Some(rc);
        if strong_first {
            drop(rc.take());
            if rounds_until(ROUND_BOUND, || drops.load(SeqCst) == 1).is_none() {
                report("C10", "C10|weak_many-never-destructed", "object not destructed after its only strong owner was dropped".into());
            }
            for w in all.iter() {
                if !bad && w.upgrade().is_some() {
                    report("C10", "C10|weak_many-upgrade-after-destruct", "upgrade succeeded after destruction".into());
                }
            }
        }
        let mut left = all.len();
        while let Some(w) = all.pop() {
            drop(w);
            left -= 1;
            churn(1);
            if left > 0 && !bad {
                let (_, d) = mon::block_state(addr);
                if d != 0 {
                    report("C10", "C10|weak_many-block-freed-early", format!("block freed while {} weak owners remain", left));
                    break;
                }
                let c = unsafe { verif::counts_at::<Cnt>(addr) };
                let expect = left as u32 + if strong_first { 0 } else { 1 };
                if c.weak != expect {
                    report("C10", "C10|weak_many-count-mismatch", format!("{} weak owners left (+implicit {}) but weak={}", left, !strong_first as u32, c.weak));
                    break;
                }
            }
        }
        drop(rc.take());
        if !bad {
            if rounds_until(ROUND_BOUND, || mon::block_state(addr).1 == 1 && drops.load(SeqCst) == 1).is_none() {
                report(
                    "C10",
                    "C10|weak_many-block-not-freed",
                    format!("weak_many::<{}>: after all owners were released: drops={} block(allocs,deallocs)={:?}", $n, drops.load(SeqCst), mon::block_state(addr)),
                );
            }
        }
        $out.case(h(&[11, $n, $tag as u64, strong_first as u64]), || J::obj().set("ctor", format!("weak_many::<{}> tag {}", $n, $tag)));
    }};
}

pub fn c10(seed: u64, tier_thorough: bool) -> SeqOut {
    let mut out = SeqOut::new();
    let mut cnts = Counts::default();
    mon::TRACK_OBJS.store(false, SeqCst);
    mon::set_extra_event(Some(mon::track_blocks));
    let mut rng = Rng::new(seed ^ 0xC10);
    let reps = if tier_thorough { 40 } else { 6 };
    for _ in 0..reps {
        new_many_case!(0, &mut rng, out, &mut cnts);
        new_many_case!(1, &mut rng, out, &mut cnts);
        new_many_case!(2, &mut rng, out, &mut cnts);
        new_many_case!(3, &mut rng, out, &mut cnts);
        new_many_case!(8, &mut rng, out, &mut cnts);
        new_many_case!(64, &mut rng, out, &mut cnts);
    }
    // new_many_iter: every count, every consumed prefix, drop vs abort
    let counts: Vec<usize> = if tier_thorough { vec![0, 1, 2, 3, 4, 5, 64, 1000] } else { vec![0, 1, 2, 3, 4, 5, 64, 200] };
    for &count in &counts {
        let prefixes: Vec<usize> = if count <= 5 { (0..=count).collect() } else { vec![0, 1, count / 2, count - 1, count] };
        for &k in &prefixes {
            for abort in [false, true] {
                for rep in 0..(if tier_thorough { 4 } else { 1 }) {
                    let (c, drops) = cnt();
                    let mut it = Rc::new_many_iter(c, count);
                    let mut owners = Vec::new();
                    for _ in 0..k {
                        match it.next() {
                            Some(r) => owners.push(r),
                            None => report("C10", "C10|iter-yielded-too-few", format!("new_many_iter({}) ended after {} items", count, owners.len())),
                        }
                    }
                    mon::eval("bulk-counts");
                    if k == count && it.next().is_some() {
                        report("C10", "C10|iter-yielded-too-many", format!("new_many_iter({}) yielded more than {}", count, count));
                    }
                    let addr = owners.first().map(|r| r.verif_addr());
                    if let Some(a) = addr {
                        let c = unsafe { verif::counts_at::<Cnt>(a) };
                        if c.strong as usize != count {
                            report("C10", "C10|iter-count-mismatch", format!("new_many_iter({}): strong={} with the iterator alive", count, c.strong));
                        }
                    }
                    if abort {
                        let g = circ::cs();
                        it.abort(&g);
                    } else {
                        drop(it);
                    }
                    if let Some(a) = addr {
                        if k > 0 {
                            let c = unsafe { verif::counts_at::<Cnt>(a) };
                            if c.strong as usize != k || drops.load(SeqCst) != 0 {
                                report(
                                    "C10",
                                    "C10|iter-release-count-mismatch",
                                    format!("new_many_iter({}) prefix {} {}: strong={} drops={}", count, k, if abort { "abort" } else { "drop" }, c.strong, drops.load(SeqCst)),
                                );
                            }
                        }
                        release_all(owners, a, &drops, &mut rng, "new_many_iter", &mut cnts);
                    } else {
                        // no share was ever yielded: the iterator was the only owner (or there was none)
                        if rounds_until(ROUND_BOUND, || drops.load(SeqCst) >= 1).is_none() {
                            report(
                                "C10",
                                &format!("C10|new_many_iter({})-prefix0-never-destructed", if count == 0 { "0" } else { "n" }),
                                format!("new_many_iter(count={}) with no share taken, iterator {}: object not destructed within {} rounds (leak)", count, if abort { "aborted" } else { "dropped" }, ROUND_BOUND),
                            );
                        }
                        churn(6);
                        if drops.load(SeqCst) > 1 {
                            report("C10", "C10|iter-destructed-twice", "destructor ran twice".into());
                        }
                    }
                    out.case(h(&[12, count as u64, k as u64, abort as u64, rep]), || {
                        J::obj().set("ctor", format!("new_many_iter(count={})", count)).set("prefix", k).set("release", if abort { "abort" } else { "drop" })
                    });
                }
            }
        }
    }
    for tag in [0usize, 1, 5, 7] {
        for _ in 0..(if tier_thorough { 6 } else { 2 }) {
            weak_many_case!(0, tag, &mut rng, out);
            weak_many_case!(1, tag, &mut rng, out);
            weak_many_case!(2, tag, &mut rng, out);
            weak_many_case!(3, tag, &mut rng, out);
            weak_many_case!(8, tag, &mut rng, out);
            weak_many_case!(64, tag, &mut rng, out);
        }
    }
    // owners regained through a weak_many share inside the reclamation window: all bulk owners are released,
    // then (0..3 rounds later, i.e. before / while / after the pending destruction attempt) a share is upgraded,
    // held for some rounds and released again
    for ctor in 0..4u64 {
        for upgrade_at in 0..=4usize {
            for hold in [0usize, 1, 5] {
                for via_snapshot in [false, true] {
                    let (c, drops) = cnt();
                    let mut owners: Vec<Rc<Cnt>> = match ctor {
                        0 => Rc::new_many::<1>(c).into_iter().collect(),
                        1 => Rc::new_many::<3>(c).into_iter().collect(),
                        2 => {
                            let mut it = Rc::new_many_iter(c, 4);
                            let v: Vec<_> = (0..2).filter_map(|_| it.next()).collect();
                            drop(it);
                            v
                        }
                        _ => {
                            let mut it = Rc::new_many_iter(c, 3);
                            let v: Vec<_> = (0..1).filter_map(|_| it.next()).collect();
                            let g = circ::cs();
                            it.abort(&g);
                            v
                        }
                    };
                    let addr = owners[0].verif_addr();
                    let [w0, w1] = owners[0].weak_many::<2>();
                    while let Some(r) = owners.pop() {
                        drop(r);
                    }
                    churn(upgrade_at);
                    mon::eval("bulk-counts");
                    let what = "revive-through-weak_many";
                    let before = drops.load(SeqCst);
                    let up = if via_snapshot {
                        let g = circ::cs();
                        let ws = w0.snapshot(&g);
                        ws.upgrade().map(|s| s.counted())
                    } else {
                        w0.upgrade()
                    };
                    match up {
                        Some(r) => {
                            if before != 0 || drops.load(SeqCst) != 0 {
                                report("C10", &format!("C10|{}-upgrade-after-destruct", what), "upgrade succeeded on a destructed object".into());
                            }
                            if r.verif_addr() != addr {
                                report("C10", &format!("C10|{}-owner-other-object", what), "upgrade returned another object".into());
                            }
                            churn(hold);
                            if drops.load(SeqCst) != 0 {
                                report("C10", &format!("C10|{}-destructed-early", what), format!("destructed while the upgraded owner is held (ctor {}, upgrade after {} rounds, held {} rounds)", ctor, upgrade_at, hold));
                            }
                            drop(r);
                        }
                        None => {}
                    }
                    if rounds_until(ROUND_BOUND, || drops.load(SeqCst) >= 1).is_none() {
                        report(
                            "C10",
                            &format!("C10|{}-never-destructed", what),
                            format!("ctor {}: owners released, share upgraded after {} rounds and released after {} more: object not destructed within {} rounds", ctor, upgrade_at, hold, ROUND_BOUND),
                        );
                    } else {
                        if w1.upgrade().is_some() {
                            report("C10", &format!("C10|{}-upgrade-after-destruct", what), "upgrade succeeded after destruction".into());
                        }
                        churn(6);
                        if drops.load(SeqCst) > 1 {
                            report("C10", &format!("C10|{}-destructed-twice", what), format!("destructor ran {} times", drops.load(SeqCst)));
                        }
                        if mon::block_state(addr).1 != 0 {
                            report("C10", &format!("C10|{}-block-freed-early", what), "block freed while two weak_many shares are alive".into());
                        }
                        drop(w0);
                        drop(w1);
                        if rounds_until(ROUND_BOUND, || mon::block_state(addr).1 == 1).is_none() {
                            report("C10", &format!("C10|{}-block-not-freed", what), "block not freed after the last weak share was dropped".into());
                        }
                    }
                    out.case(h(&[13, ctor, upgrade_at as u64, hold as u64, via_snapshot as u64]), || {
                        J::obj().set("ctor", format!("revive ctor {}", ctor)).set("upgrade_after_rounds", upgrade_at).set("hold_rounds", hold)
                    });
                }
            }
        }
    }
    mon::set_extra_event(None);
    out.extra = J::obj().set("counters", &cnts);
    out.exhaustive = false;
    out
}

// =============================================================================================
// C11

#[repr(align(1))]
pub struct A1(u8);
#[repr(align(2))]
pub struct A2(u8);
#[repr(align(4))]
pub struct A4(u8);
#[repr(align(8))]
pub struct A8(u8);
#[repr(align(16))]
pub struct A16(u8);
#[repr(align(32))]
pub struct A32(u8);
#[repr(align(64))]
pub struct A64(u8);

const HI: usize = 0xF << 60;

fn tagged_grid<T>(align: usize, rng: &mut Rng, out: &mut SeqOut, n_random: usize) {
    assert_eq!(std::mem::align_of::<T>(), align);
    let low = align - 1;
    let mut addrs: Vec<usize> = vec![0, align, 2 * align, (1 << 47) - align, (1 << 56) - align, (1 << 60) - align, 0x7fff_dead_b000 & !low];
    for _ in 0..n_random {
        addrs.push((rng.next() as usize & ((1 << 60) - 1)) & !low);
    }
    for &a in &addrs {
        for tag in 0..=(2 * align) {
            for ts in 0..16usize {
                mon::eval("tag-model");
                let w0 = a;
                // with_tag then with_high_tag
                let w1 = TG::with_tag::<T>(w0, tag);
                let w2 = TG::with_high_tag::<T>(w1, ts);
                let m1 = (w0 & !low) | (tag & low);
                let m2 = (m1 & !HI) | ((ts & 15) << 60);
                let mut bad = Vec::new();
                if w1 != m1 {
                    bad.push(format!("with_tag({:#x},{}) = {:#x}, model {:#x}", w0, tag, w1, m1));
                }
                if w2 != m2 {
                    bad.push(format!("with_high_tag({:#x},{}) = {:#x}, model {:#x}", w1, ts, w2, m2));
                }
                if TG::tag::<T>(w2) != tag & low {
                    bad.push(format!("tag({:#x}) = {}, model {}", w2, TG::tag::<T>(w2), tag & low));
                }
                if TG::high_tag::<T>(w2) != ts {
                    bad.push(format!("high_tag({:#x}) = {}", w2, TG::high_tag::<T>(w2)));
                }
                if TG::as_raw::<T>(w2) != a {
                    bad.push(format!("as_raw({:#x}) = {:#x}, model {:#x}", w2, TG::as_raw::<T>(w2), a));
                }
                if TG::is_null::<T>(w2) != (a == 0) {
                    bad.push(format!("is_null({:#x}) = {}", w2, TG::is_null::<T>(w2)));
                }
                // ptr_eq ignores the timestamp, sees the tag and the address
                let other_ts = TG::with_high_tag::<T>(w2, (ts + 5) & 15);
                if !TG::ptr_eq::<T>(w2, other_ts) {
                    bad.push(format!("ptr_eq({:#x},{:#x}) = false (only the timestamp differs)", w2, other_ts));
                }
                if low > 0 {
                    let other_tag = TG::with_tag::<T>(w2, (tag + 1) & low);
                    if TG::ptr_eq::<T>(w2, other_tag) {
                        bad.push(format!("ptr_eq({:#x},{:#x}) = true (tags differ)", w2, other_tag));
                    }
                    // retagging keeps the timestamp and the address
                    if TG::high_tag::<T>(other_tag) != ts || TG::as_raw::<T>(other_tag) != a {
                        bad.push(format!("with_tag changed timestamp/address: {:#x} -> {:#x}", w2, other_tag));
                    }
                }
                let other_addr = w2 ^ (align.max(1) << 4);
                if TG::ptr_eq::<T>(w2, other_addr) {
                    bad.push(format!("ptr_eq({:#x},{:#x}) = true (addresses differ)", w2, other_addr));
                }
                // formatting ignores tag and timestamp
                let p = TG::fmt_pointer::<T>(w2);
                let d = TG::fmt_debug::<T>(w2);
                let model = format!("{:p}", a as *const u8);
                if p != model || d != model {
                    bad.push(format!("fmt of {:#x}: {:?}/{:?}, model {:?}", w2, p, d, model));
                }
                for b in bad {
                    report("C11", &format!("C11|tagged-model-mismatch|align={}", align), b);
                }
                out.case(h(&[20, align as u64, a as u64, tag as u64, ts as u64]), || {
                    J::obj().set("align", align).set("addr", format!("{:#x}", a)).set("tag", tag).set("timestamp", ts)
                });
            }
        }
    }
}

macro_rules! aligned_payload {
    ($name:ident, $al:literal) => {
        #[repr(align($al))]
        pub struct $name {
            v: u64,
            next: AtomicRc<$name>,
        }
        unsafe impl RcObject for $name {
            fn pop_edges(&mut self, out: &mut Vec<Rc<Self>>) {
                out.push(self.next.take());
            }
        }
    };
}
aligned_payload!(P1, 1);
aligned_payload!(P8, 8);
aligned_payload!(P16, 16);
aligned_payload!(P32, 32);
aligned_payload!(P64, 64);

macro_rules! public_tag_grid {
    ($ty:ident, $out:expr, $bits:expr) => {{
        // `bits`: number of tag bits available = log2(alignment of the block)
        let low: usize = (1usize << $bits) - 1;
        let rc = Rc::new($ty { v: 0xABCD, next: AtomicRc::null() });
        let addr = rc.verif_addr();
        let cell = AtomicRc::<$ty>::null();
        let wcell = AtomicWeak::<$ty>::null();
        let fmt0 = format!("{:p}", rc);
        for tag in 0..=(2 * low + 1) {
            let t = rc.clone().with_tag(tag);
            mon::eval("tag-model");
            if t.tag() != tag & low || t.verif_addr() != addr || t.is_null() || t.as_ref().map(|x| x.v) != Some(0xABCD) {
                report("C11", "C11|public-with_tag-mismatch", format!("Rc::with_tag({}) -> tag {} addr {:#x} (expected tag {} addr {:#x})", tag, t.tag(), t.verif_addr(), tag & low, addr));
            }
            if format!("{:p}", t) != fmt0 {
                report("C11", "C11|public-fmt-depends-on-tag", format!("{{:p}} of tagged Rc: {} vs {}", format!("{:p}", t), fmt0));
            }
            let w = t.downgrade();
            if w.tag() != tag & low || w.verif_addr() != addr || format!("{:p}", w) != fmt0 {
                report("C11", "C11|public-with_tag-mismatch", format!("downgrade of tagged Rc lost tag/address (tag {})", w.tag()));
            }
            // the same pointer written at 16 epoch residues, loaded back
            let mut snaps: Vec<(usize, usize, bool, String, u64)> = Vec::new();
            for _r in 0..16 {
                churn(1);
                let g = circ::cs();
                cell.store(t.clone(), SeqCst, &g);
                wcell.store(w.clone(), SeqCst, &g);
                let s = cell.load(SeqCst, &g);
                let ws = wcell.load(SeqCst, &g);
                let s_here = t.snapshot(&g);
                mon::eval("tag-model");
                if s.is_null() || s.tag() != tag & low || s.verif_addr() != addr || !s.ptr_eq(s_here) {
                    report("C11", "C11|timestamp-visible", format!("Snapshot loaded at residue {} (stamp {}) differs from the stored pointer: tag {} addr {:#x} ptr_eq {}", verif::global_epoch() % 16, s.verif_high_tag(), s.tag(), s.verif_addr(), s.ptr_eq(s_here)));
                }
                if ws.is_null() || ws.tag() != tag & low || ws.verif_addr() != addr || !ws.ptr_eq(s.downgrade()) || !ws.ptr_eq(w.snapshot(&g)) {
                    report("C11", "C11|timestamp-visible", format!("WeakSnapshot at residue {}: tag {} addr {:#x}", verif::global_epoch() % 16, ws.tag(), ws.verif_addr()));
                }
                let mut c = s.counted();
                if !c.ptr_eq(&t) || c.tag() != tag & low {
                    report("C11", "C11|timestamp-visible", "counted() of a loaded Snapshot is not ptr_eq the stored Rc".into());
                }
                // every way of dereferencing yields the same address (compared, not accessed)
                let a_ref = s.as_ref().map_or(0, |x| x as *const $ty as usize);
                let a_mut = unsafe { s.as_mut() }.map_or(0, |x| x as *mut $ty as usize);
                let a_dm = unsafe { s.deref_mut() } as *mut $ty as usize;
                let a_d = unsafe { s.deref() } as *const $ty as usize;
                let r_ref = c.as_ref().map_or(0, |x| x as *const $ty as usize);
                let r_mut = unsafe { c.as_mut() }.map_or(0, |x| x as *mut $ty as usize);
                let r_dm = unsafe { c.deref_mut() } as *mut $ty as usize;
                if [a_mut, a_dm, a_d, r_ref, r_mut, r_dm].iter().any(|x| *x != a_ref) || a_ref == 0 || a_ref >> 60 != 0 {
                    report(
                        "C11",
                        "C11|dereference-sees-timestamp-or-tag",
                        format!("stamp {} tag {}: as_ref {:#x} as_mut {:#x} deref_mut {:#x} deref {:#x}; Rc: as_ref {:#x} as_mut {:#x} deref_mut {:#x}", s.verif_high_tag(), tag, a_ref, a_mut, a_dm, a_d, r_ref, r_mut, r_dm),
                    );
                }
                let up = ws.upgrade();
                if up.map_or(true, |u| !u.ptr_eq(s)) {
                    report("C11", "C11|timestamp-visible", "WeakSnapshot::upgrade of a loaded pointer is not ptr_eq the loaded Snapshot".into());
                }
                // compare-exchange family: an expected value that carries another internal stamp (a
                // never-stored Rc's snapshot, or the same pointer as loaded at any other epoch) matches
                for other in [0usize, (s.verif_high_tag() + 1) & 15, (s.verif_high_tag() + 7) & 15] {
                    let exp = s.verif_with_high_tag(other);
                    mon::eval("tag-model");
                    match cell.compare_exchange_tag(exp, tag ^ 1, SeqCst, SeqCst, &g) {
                        Ok(_) => {
                            let now = cell.load(SeqCst, &g);
                            if now.tag() != (tag ^ 1) & low || now.verif_addr() != addr {
                                report("C11", "C11|cas_tag-wrong-result", format!("compare_exchange_tag set tag {} addr {:#x}", now.tag(), now.verif_addr()));
                            }
                            // and back
                            if cell.compare_exchange_tag(now.verif_with_high_tag(other), tag, SeqCst, SeqCst, &g).is_err() {
                                report("C11", "C11|timestamp-visible-in-cas", format!("compare_exchange_tag back failed although only the internal stamp of `expected` ({}) differs from the stored one", other));
                            }
                        }
                        Err(e) => report(
                            "C11",
                            "C11|timestamp-visible-in-cas",
                            format!("compare_exchange_tag failed although expected is ptr_eq the content (expected stamp {}, stored stamp {}, current ptr_eq expected: {})", other, s.verif_high_tag(), e.current.ptr_eq(exp)),
                        ),
                    }
                    match cell.compare_exchange(cell.load(SeqCst, &g).verif_with_high_tag(other), t.clone(), SeqCst, SeqCst, &g) {
                        Ok(old) => drop(old),
                        Err(e) => {
                            report("C11", "C11|timestamp-visible-in-cas", format!("compare_exchange failed although expected is ptr_eq the content (expected stamp {})", other));
                            drop(e.desired);
                        }
                    }
                    let wexp = wcell.load(SeqCst, &g).verif_with_high_tag(other);
                    match wcell.compare_exchange(wexp, w.clone(), SeqCst, SeqCst, &g) {
                        Ok(old) => drop(old),
                        Err(e) => {
                            report("C11", "C11|timestamp-visible-in-cas", format!("AtomicWeak::compare_exchange failed although expected is ptr_eq the content (expected stamp {})", other));
                            drop(e.desired);
                        }
                    }
                    if wcell.compare_exchange_tag(wcell.load(SeqCst, &g).verif_with_high_tag(other), tag, SeqCst, SeqCst, &g).is_err() {
                        report("C11", "C11|timestamp-visible-in-cas", format!("AtomicWeak::compare_exchange_tag failed although expected is ptr_eq the content (expected stamp {})", other));
                    }
                }
                let s = cell.load(SeqCst, &g);
                snaps.push((s.verif_high_tag(), s.tag(), s.is_null(), format!("{:p}", s), s.as_ref().map_or(0, |x| x.v)));
                $out.case(h(&[21, $bits as u64, tag as u64, s.verif_high_tag() as u64]), || {
                    J::obj().set("type", stringify!($ty)).set("tag", tag).set("loaded_stamp", s.verif_high_tag())
                });
            }
            let stamps: HashSet<usize> = snaps.iter().map(|x| x.0).collect();
            if stamps.len() < 15 {
                report("C11", "C11|harness-stamps-not-covered", format!("only {} distinct stamps produced", stamps.len()));
            }
            if snaps.iter().any(|x| x.1 != tag & low || x.2 || x.3 != fmt0 || x.4 != 0xABCD) {
                report("C11", "C11|timestamp-visible", format!("observations differ across stamps: {:?}", &snaps[..3]));
            }
        }
        // null with tag and timestamp
        for tag in 0..=low {
            let n = Rc::<$ty>::null().with_tag(tag);
            mon::eval("tag-model");
            if !n.is_null() || n.as_ref().is_some() || n.tag() != tag {
                report("C11", "C11|tagged-null-not-null", format!("Rc::null().with_tag({}): is_null={} tag={}", tag, n.is_null(), n.tag()));
            }
            let g = circ::cs();
            cell.store(n, SeqCst, &g);
            let s = cell.load(SeqCst, &g);
            if !s.is_null() || s.as_ref().is_some() || s.tag() != tag {
                report("C11", "C11|tagged-null-not-null", format!("tagged null through AtomicRc: is_null={} tag={}", s.is_null(), s.tag()));
            }
            for ts in 0..16 {
                let s2 = s.verif_with_high_tag(ts);
                let c = s2.counted();
                let ws = s2.downgrade();
                let up = ws.upgrade();
                let wk = ws.counted();
                if !s2.is_null() || s2.as_ref().is_some() || !c.is_null() || !ws.is_null() || up.map_or(true, |u| !u.is_null() || u.tag() != tag) || !wk.is_null() || wk.upgrade().map_or(true, |u| !u.is_null() || u.tag() != tag) || !s2.ptr_eq(s) {
                    report("C11", "C11|timestamped-null-not-null", format!("null with tag {} and timestamp {} is not treated as null", tag, ts));
                }
                drop(c);
                drop(wk);
                $out.case(h(&[22, $bits as u64, tag as u64, ts as u64]), || J::obj().set("null_tag", tag).set("timestamp", ts));
            }
            let w = Weak::<$ty>::null().with_tag(tag);
            if !w.is_null() || w.tag() != tag || w.upgrade().map_or(true, |u| !u.is_null() || u.tag() != tag) {
                report("C11", "C11|tagged-null-not-null", format!("Weak::null().with_tag({}) misbehaves", tag));
            }
            let _ = WeakSnapshot::<$ty>::null();
        }
        drop(cell);
        drop(wcell);
        drop(rc);
        churn(6);
    }};
}

pub fn c11(seed: u64, thorough: bool) -> SeqOut {
    let mut out = SeqOut::new();
    mon::TRACK_OBJS.store(false, SeqCst);
    let mut rng = Rng::new(seed ^ 0xC11);
    let nr = if thorough { 2000 } else { 150 };
    tagged_grid::<A1>(1, &mut rng, &mut out, nr);
    tagged_grid::<A2>(2, &mut rng, &mut out, nr);
    tagged_grid::<A4>(4, &mut rng, &mut out, nr);
    tagged_grid::<A8>(8, &mut rng, &mut out, nr);
    tagged_grid::<A16>(16, &mut rng, &mut out, nr / 2);
    tagged_grid::<A32>(32, &mut rng, &mut out, nr / 4);
    tagged_grid::<A64>(64, &mut rng, &mut out, nr / 8);
    // the block of a payload with alignment <= 8 is 8-aligned (it holds an AtomicU64)
    public_tag_grid!(P1, out, 3);
    public_tag_grid!(P8, out, 3);
    public_tag_grid!(P16, out, 4);
    public_tag_grid!(P32, out, 5);
    public_tag_grid!(P64, out, 6);
    out.extra = J::obj().set("alignments", J::A(vec![1u64, 2, 4, 8, 16, 32, 64].into_iter().map(J::U).collect()));
    out.exhaustive = false;
    out
}

// =============================================================================================
// C12

pub fn c12_pure(seed: u64, thorough: bool, out: &mut SeqOut) {
    let mut rng = Rng::new(seed ^ 0xC12);
    let sb = SS::STRONG_BITS;
    let wb = SS::WEAK_BITS;
    let eb = SS::EPOCH_BITS;
    let bound = |bits: u32| -> Vec<u64> { vec![0, 1, 2, (1u64 << bits) - 2, (1u64 << bits) - 1, 1u64 << (bits - 1)] };
    let compose = |e: u64, s: u64, w: u64, d: bool, k: bool| -> u64 {
        let mut x = SS::initial(0); // weak = 1, strong = 0
        x = SS::sub_weak(x);
        x = SS::add_strong(x, s as u32);
        x = SS::add_weak(x, w as u32);
        x = SS::with_epoch(x, e as usize);
        x = SS::with_destructed(x, d);
        SS::with_weaked(x, k)
    };
    let mut words: Vec<(u64, u64, u64, bool, bool)> = Vec::new();
    for &e in &[0u64, 1, 7, 14, 15] {
        for &s in &bound(sb) {
            for &w in &bound(wb) {
                for d in [false, true] {
                    for k in [false, true] {
                        words.push((e, s, w, d, k));
                    }
                }
            }
        }
    }
    for _ in 0..(if thorough { 20000 } else { 2000 }) {
        words.push((rng.below(1 << eb), rng.below(1 << sb), rng.below(1 << wb), rng.chance(1, 2), rng.chance(1, 2)));
    }
    for (e, s, w, d, k) in words {
        let x = compose(e, s, w, d, k);
        mon::eval("state-model");
        let dec = SS::decode(x);
        if dec != (e as u32, s as u32, w as u32, d, k) {
            report("C12", "C12|state-compose-decode", format!("compose({},{},{},{},{}) decodes to {:?} (word {:#x})", e, s, w, d, k, dec, x));
            continue;
        }
        let chk = |name: &str, y: u64, exp: (u32, u32, u32, bool, bool)| {
            if SS::decode(y) != exp {
                report("C12", &format!("C12|state-field-interference|{}", name), format!("{} on {:?} gave {:?}, expected {:?}", name, dec, SS::decode(y), exp));
            }
        };
        for ne in [0usize, 1, 15, 16, 17, 31, 4096 + 5, usize::MAX] {
            chk("with_epoch", SS::with_epoch(x, ne), ((ne % 16) as u32, dec.1, dec.2, d, k));
        }
        if s + 3 < (1 << sb) {
            chk("add_strong", SS::add_strong(x, 3), (dec.0, dec.1 + 3, dec.2, d, k));
            chk("add_strong", SS::add_strong(x, 1), (dec.0, dec.1 + 1, dec.2, d, k));
        }
        if s >= 2 {
            chk("sub_strong", SS::sub_strong(x, 2), (dec.0, dec.1 - 2, dec.2, d, k));
            chk("sub_strong", SS::sub_strong(x, s as u32), (dec.0, 0, dec.2, d, k));
        }
        if w + 2 < (1 << wb) {
            chk("add_weak", SS::add_weak(x, 2), (dec.0, dec.1, dec.2 + 2, d, k));
        }
        if w >= 1 {
            chk("sub_weak", SS::sub_weak(x), (dec.0, dec.1, dec.2 - 1, d, k));
        }
        chk("with_destructed", SS::with_destructed(x, true), (dec.0, dec.1, dec.2, true, k));
        chk("with_destructed", SS::with_destructed(x, false), (dec.0, dec.1, dec.2, false, k));
        chk("with_weaked", SS::with_weaked(x, true), (dec.0, dec.1, dec.2, d, true));
        chk("with_weaked", SS::with_weaked(x, false), (dec.0, dec.1, dec.2, d, false));
        out.case(h(&[30, x]), || J::obj().set("word", format!("{:#x}", x)).set("fields", format!("{:?}", dec)));
    }
    // modular decision grid
    let mut currs: Vec<usize> = (3..=80).collect();
    for base in [1usize << 16, 1usize << 32, 1usize << 40] {
        for d in 0..=40 {
            currs.push(base - 20 + d);
        }
    }
    for &curr in &currs {
        for age in -1i64..=64 {
            let stamp_true = curr as i64 - age;
            if stamp_true < 0 {
                continue;
            }
            let node_epoch = (stamp_true as usize % 16) as u32;
            mon::eval("modular-model");
            let old = SS::reclaim_decision(curr, node_epoch);
            if old && age < 3 {
                report("C12", "C12|modular-too-old", format!("curr={} stamp age {} (stamp {}) classified old enough", curr, age, node_epoch));
            }
            if !old && (3..=13).contains(&age) {
                report("C12", "C12|modular-window-misclassified", format!("curr={} stamp age {} (stamp {}) classified too recent", curr, age, node_epoch));
            }
            out.case(h(&[31, curr as u64, (age + 1) as u64]), || J::obj().set("curr_epoch", curr).set("age", age).set("classified_old", old));
        }
        // child stamp = most recent of the in-window arguments
        for _ in 0..(if thorough { 60 } else { 12 }) {
            // the window that maps without aliasing is [curr-13, curr+2]
            let ages = [rng.range(0, 14) as i64 - 1, rng.range(0, 14) as i64 - 1, rng.range(0, 14) as i64 - 1];
            if ages.iter().any(|a| curr as i64 - a < 0) {
                continue;
            }
            let st: Vec<u32> = ages.iter().map(|a| ((curr as i64 - a) as usize % 16) as u32).collect();
            let m = SS::child_stamp(curr, st[0], st[1], st[2]);
            let youngest = *ages.iter().min().unwrap();
            mon::eval("modular-model");
            if m != ((curr as i64 - youngest) as usize % 16) as u32 {
                report("C12", "C12|modular-max-wrong", format!("curr={} ages {:?}: max stamp {} but the most recent is age {}", curr, ages, m, youngest));
            }
            out.case(h(&[32, curr as u64, st[0] as u64, st[1] as u64, st[2] as u64]), || J::obj().set("curr_epoch", curr).set("ages", format!("{:?}", ages)).set("max", m));
        }
    }
}

pub struct E2 {
    id: u32,
    next: AtomicRc<E2>,
}
unsafe impl RcObject for E2 {
    fn pop_edges(&mut self, out: &mut Vec<Rc<Self>>) {
        out.push(self.next.take());
    }
}
static E2_LOG: std::sync::Mutex<Vec<(u32, usize, usize)>> = std::sync::Mutex::new(Vec::new());
impl Drop for E2 {
    fn drop(&mut self) {
        E2_LOG.lock().unwrap().push((self.id, verif::global_epoch(), mon::CUR_DEPTH.with(|d| d.get())));
    }
}

fn advance_to(target: usize) {
    let mut guard = 0;
    while verif::global_epoch() < target {
        churn(1);
        guard += 1;
        if guard > 10_000 {
            mon::harness_error("epoch does not advance");
        }
    }
}

/// End-to-end cascade-vs-defer decisions (the shim cannot see a mutated decision site).
pub fn c12_e2e(out: &mut SeqOut, thorough: bool) {
    let dls: Vec<i64> = if thorough { vec![0, 1, 2, 3, 4, 6, 9, 12, 13, 14, 18, 30] } else { vec![0, 2, 3, 5, 13, 20] };
    let dxs: Vec<i64> = if thorough { vec![-2, -1, 0, 1, 2, 3, 4, 7, 10, 13, 14, 15, 16, 17, 20, 31, 40] } else { vec![-2, -1, 0, 1, 3, 6, 13, 15, 17, 33] };
    let mut decisions = Counts::default();
    for residue in 0..16usize {
        for &dl in &dls {
            for &dx in &dxs {
                // plan: link written at Ep - dl, child stamped (non-final decrement) at Ep - dx, parent dropped at Ep
                let span = dl.max(dx).max(0) as usize;
                let mut ep = verif::global_epoch() + span + 1;
                while ep % 16 != residue {
                    ep += 1;
                }
                let t_link = ep as i64 - dl;
                let t_x = ep as i64 - dx;
                let x = Rc::new(E2 { id: 2, next: AtomicRc::null() });
                let x2 = x.clone();
                let p = Rc::new(E2 { id: 1, next: AtomicRc::null() });
                E2_LOG.lock().unwrap().clear();
                let mut x_opt = Some(x);
                let mut x2_opt = Some(x2);
                let mut p_opt = Some(p);
                let mut events: Vec<(i64, u8)> = vec![(t_link, 0), (t_x, 1), (ep as i64, 2)];
                events.sort();
                let mut e_link = 0usize;
                let mut e_x = 0usize;
                let mut e_p = 0usize;
                for (t, what) in events {
                    advance_to(t as usize);
                    match what {
                        0 => {
                            let g = circ::cs();
                            e_link = verif::global_epoch();
                            p_opt.as_ref().unwrap().as_ref().unwrap().next.store(x_opt.take().unwrap(), SeqCst, &g);
                        }
                        1 => {
                            e_x = verif::global_epoch();
                            drop(x2_opt.take());
                        }
                        _ => {
                            e_p = verif::global_epoch();
                            drop(p_opt.take());
                        }
                    }
                }
                if e_link > e_p {
                    // the link must exist before the parent goes away; skip impossible plans
                    continue;
                }
                // drive rounds until both are gone
                let mut rounds = 0;
                while E2_LOG.lock().unwrap().len() < 2 {
                    churn(1);
                    rounds += 1;
                    if rounds > 200 {
                        report("C12", "C12|e2e-never-reclaimed", format!("parent/child not reclaimed (residue {}, dl {}, dx {})", residue, dl, dx));
                        break;
                    }
                }
                let log = E2_LOG.lock().unwrap().clone();
                if log.len() < 2 {
                    continue;
                }
                let (pe, xe) = (log.iter().find(|l| l.0 == 1).unwrap(), log.iter().find(|l| l.0 == 2).unwrap());
                let e_c = pe.1;
                let cascaded = xe.2 >= 1 && xe.1 == e_c;
                let ages = [e_c as i64 - e_p as i64, e_c as i64 - e_link as i64, e_c as i64 - e_x as i64];
                let recent = *ages.iter().min().unwrap();
                mon::eval("e2e-decision");
                if cascaded && recent < 3 {
                    report(
                        "C12",
                        "C12|e2e-cascaded-too-recent",
                        format!("child reclaimed immediately at epoch {} although the most recent of (parent, link, child) stamps has true age {} (ages {:?}, residue {})", e_c, recent, ages, e_c % 16),
                    );
                }
                if !cascaded && ages.iter().all(|a| (3..=13).contains(a)) {
                    report(
                        "C12",
                        "C12|e2e-deferred-in-window",
                        format!("child deferred at epoch {} although all stamps have ages {:?} within the unambiguous window (residue {})", e_c, ages, e_c % 16),
                    );
                }
                decisions.inc(if cascaded { "cascaded" } else { "deferred" });
                if recent < 3 {
                    decisions.inc("must-defer-cases");
                } else if ages.iter().all(|a| (3..=13).contains(a)) {
                    decisions.inc("must-cascade-cases");
                } else {
                    decisions.inc("free-cases");
                }
                out.case(h(&[33, residue as u64, (dl + 5) as u64, (dx + 5) as u64]), || {
                    J::obj().set("residue_at_parent_drop", residue).set("ages_at_cascade", format!("{:?}", ages)).set("cascaded", cascaded)
                });
            }
        }
    }
    out.extra.put("e2e", &decisions);
}

pub fn c12(seed: u64, thorough: bool) -> SeqOut {
    let mut out = SeqOut::new();
    mon::TRACK_OBJS.store(false, SeqCst);
    c12_pure(seed, thorough, &mut out);
    c12_e2e(&mut out, thorough);
    out.exhaustive = false;
    out
}

// =============================================================================================
// C19

pub struct Item {
    key: i32,
    salt: u32,
    next: AtomicRc<Item>,
}
unsafe impl RcObject for Item {
    fn pop_edges(&mut self, out: &mut Vec<Rc<Self>>) {
        out.push(self.next.take());
    }
}
impl PartialEq for Item {
    fn eq(&self, o: &Self) -> bool {
        self.key == o.key
    }
}
impl Eq for Item {}
impl PartialOrd for Item {
    fn partial_cmp(&self, o: &Self) -> Option<std::cmp::Ordering> {
        Some(self.cmp(o))
    }
}
impl Ord for Item {
    fn cmp(&self, o: &Self) -> std::cmp::Ordering {
        self.key.cmp(&o.key)
    }
}
impl Hash for Item {
    fn hash<H: Hasher>(&self, s: &mut H) {
        self.key.hash(s)
    }
}

fn hash1<T: Hash>(t: &T) -> u64 {
    let mut s = DefaultHasher::new();
    t.hash(&mut s);
    s.finish()
}
struct Fnv(u64);
impl Hasher for Fnv {
    fn finish(&self) -> u64 {
        self.0
    }
    fn write(&mut self, b: &[u8]) {
        for x in b {
            self.0 = (self.0 ^ *x as u64).wrapping_mul(0x100000001b3);
        }
    }
}
fn hash2<T: Hash>(t: &T) -> u64 {
    let mut s = Fnv(0xcbf29ce484222325);
    t.hash(&mut s);
    s.finish()
}

/// A referent that is only PartialEq / PartialOrd, and not reflexive when it holds a NaN.
pub struct FItem {
    v: f64,
    next: AtomicRc<FItem>,
}
unsafe impl RcObject for FItem {
    fn pop_edges(&mut self, out: &mut Vec<Rc<Self>>) {
        out.push(self.next.take());
    }
}
impl PartialEq for FItem {
    fn eq(&self, o: &Self) -> bool {
        self.v == o.v
    }
}
impl PartialOrd for FItem {
    fn partial_cmp(&self, o: &Self) -> Option<std::cmp::Ordering> {
        self.v.partial_cmp(&o.v)
    }
}

fn c19_partial(out: &mut SeqOut) {
    let mk = |v: f64| Rc::new(FItem { v, next: AtomicRc::null() });
    let n1 = mk(f64::NAN);
    let n2 = mk(f64::NAN);
    let f1 = mk(1.0);
    let f1b = mk(1.0);
    let f2 = mk(2.0);
    let mut pool: Vec<(String, Rc<FItem>)> = vec![
        ("null".into(), Rc::null()),
        ("null tag 1".into(), Rc::null().with_tag(1)),
        ("NaN#1".into(), n1.clone()),
        ("NaN#1 (clone)".into(), n1.clone()),
        ("NaN#1 tag 3".into(), n1.clone().with_tag(3)),
        ("NaN#2".into(), n2.clone()),
        ("1.0#a".into(), f1.clone()),
        ("1.0#a (clone)".into(), f1.clone()),
        ("1.0#b".into(), f1b.clone()),
        ("2.0".into(), f2.clone()),
    ];
    let cell = AtomicRc::from(n1.clone());
    for i in 0..2 {
        churn(1 + i);
        let g = circ::cs();
        let r = cell.load(SeqCst, &g).counted();
        cell.store(r.clone(), SeqCst, &g);
        pool.push((format!("NaN#1 loaded at stamp {}", cell.load(SeqCst, &g).verif_high_tag()), cell.load(SeqCst, &g).counted()));
    }
    let g = circ::cs();
    let n = pool.len();
    for i in 0..n {
        for j in 0..n {
            let (x, y) = (&pool[i].1, &pool[j].1);
            let (ox, oy) = (x.as_ref(), y.as_ref());
            let (sx, sy) = (x.snapshot(&g), y.snapshot(&g));
            mon::eval("trait-model");
            let mut bad = Vec::new();
            if (x == y) != (ox == oy) || (sx == sy) != (ox == oy) || (x != y) != (ox != oy) {
                bad.push(format!("==: Rc {} Snapshot {} model {}", x == y, sx == sy, ox == oy));
            }
            if x.partial_cmp(y) != ox.partial_cmp(&oy) || sx.partial_cmp(&sy) != ox.partial_cmp(&oy) {
                bad.push(format!("partial_cmp: Rc {:?} Snapshot {:?} model {:?}", x.partial_cmp(y), sx.partial_cmp(&sy), ox.partial_cmp(&oy)));
            }
            if (x < y) != (ox < oy) || (x <= y) != (ox <= oy) || (x > y) != (ox > oy) || (x >= y) != (ox >= oy) || (sx < sy) != (ox < oy) || (sx <= sy) != (ox <= oy) || (sx >= sy) != (ox >= oy) {
                bad.push(format!("comparison operators: Rc < {} <= {} > {} >= {}; model < {} <= {} > {} >= {}", x < y, x <= y, x > y, x >= y, ox < oy, ox <= oy, ox > oy, ox >= oy));
            }
            for b in bad {
                report("C19", &format!("C19|partial-trait-model-mismatch|{}", b.split(':').next().unwrap_or("")), format!("[{}] vs [{}]: {}", pool[i].0, pool[j].0, b));
            }
            out.case(h(&[41, i as u64, j as u64]), || J::obj().set("a", pool[i].0.clone()).set("b", pool[j].0.clone()).set("eq", x == y).set("partial_cmp", format!("{:?}", x.partial_cmp(y))));
        }
    }
}

/// Referents of several alignments for the C19 pool (an over-aligned referent has more tag bits).
pub trait KeyItem: RcObject + Ord + Hash + Sized + 'static {
    const NAME: &'static str;
    fn mk(key: i32, salt: u32) -> Self;
}
impl KeyItem for Item {
    const NAME: &'static str = "align8";
    fn mk(key: i32, salt: u32) -> Self {
        Item { key, salt, next: AtomicRc::null() }
    }
}
macro_rules! aligned_item {
    ($name:ident, $al:literal, $label:literal) => {
        #[repr(align($al))]
        pub struct $name {
            key: i32,
            #[allow(dead_code)]
            salt: u32,
            next: AtomicRc<$name>,
        }
        unsafe impl RcObject for $name {
            fn pop_edges(&mut self, out: &mut Vec<Rc<Self>>) {
                out.push(self.next.take());
            }
        }
        impl PartialEq for $name {
            fn eq(&self, o: &Self) -> bool {
                self.key == o.key
            }
        }
        impl Eq for $name {}
        impl PartialOrd for $name {
            fn partial_cmp(&self, o: &Self) -> Option<std::cmp::Ordering> {
                Some(self.cmp(o))
            }
        }
        impl Ord for $name {
            fn cmp(&self, o: &Self) -> std::cmp::Ordering {
                self.key.cmp(&o.key)
            }
        }
        impl Hash for $name {
            fn hash<H: Hasher>(&self, s: &mut H) {
                self.key.hash(s)
            }
        }
        impl KeyItem for $name {
            const NAME: &'static str = $label;
            fn mk(key: i32, salt: u32) -> Self {
                $name { key, salt, next: AtomicRc::null() }
            }
        }
    };
}
aligned_item!(Item16, 16, "align16");
aligned_item!(Item64, 64, "align64");

/// One pool per referent type. The model of every entry (`None` for a null, the referent otherwise) is what the
/// harness knows from how it built the entry, not what the library's `as_ref` says.
fn c19_pool<T: KeyItem>(out: &mut SeqOut, tags: &[usize], null_tags: &[usize], names: &mut Vec<String>) {
    let mk = |key: i32, salt: u32| Rc::new(T::mk(key, salt));
    let a = mk(1, 10);
    let b = mk(1, 20); // equal content, distinct object
    let c = mk(2, 30);
    let d = mk(-5, 40);
    struct Ent<T: KeyItem> {
        name: String,
        rc: Rc<T>,
        ident: (usize, usize),
        model: Option<*const T>,
    }
    let mut pool: Vec<Ent<T>> = Vec::new();
    pool.push(Ent { name: "null".into(), rc: Rc::null(), ident: (0, 0), model: None });
    for &t in null_tags {
        pool.push(Ent { name: format!("null tag {}", t), rc: Rc::null().with_tag(t), ident: (0, t), model: None });
    }
    for (name, r) in [("A", &a), ("B", &b), ("C", &c), ("D", &d)] {
        // the untagged, never stored pointer defines the referent
        let referent = r.as_ref().unwrap() as *const T;
        pool.push(Ent { name: name.to_string(), rc: r.clone(), ident: (r.verif_addr(), 0), model: Some(referent) });
        for &t in tags {
            if t == 0 || (name != "A" && t != tags[tags.len() - 1]) {
                continue;
            }
            pool.push(Ent { name: format!("{} tag {}", name, t), rc: r.clone().with_tag(t), ident: (r.verif_addr(), t), model: Some(referent) });
        }
    }
    // A loaded at 3 different epochs (different internal stamps), as Rc via counted()
    let st = tags[tags.len() / 2];
    let cell = AtomicRc::from(a.clone().with_tag(st));
    for i in 0..3 {
        churn(1 + i);
        let g = circ::cs();
        let r = cell.load(SeqCst, &g).counted();
        cell.store(r.clone(), SeqCst, &g);
        let r2 = cell.load(SeqCst, &g).counted();
        pool.push(Ent { name: format!("A tag {} loaded at stamp {}", st, r2.verif_high_tag()), rc: r2, ident: (a.verif_addr(), st), model: Some(a.as_ref().unwrap() as *const T) });
        drop(r);
    }
    let g = circ::cs();
    let mref = |p: Option<*const T>| -> Option<&T> { p.map(|q| unsafe { &*q }) };
    let n = pool.len();
    for i in 0..n {
        // the accessors agree with what the harness knows about the entry
        mon::eval("trait-model");
        let x = &pool[i].rc;
        if x.is_null() != pool[i].model.is_none() || x.snapshot(&g).is_null() != pool[i].model.is_none() {
            report("C19", "C19|is_null-wrong", format!("{} [{}]: is_null() = {}", T::NAME, pool[i].name, x.is_null()));
            continue;
        }
        if x.as_ref().map(|r| r as *const T) != pool[i].model || x.snapshot(&g).as_ref().map(|r| r as *const T) != pool[i].model {
            report("C19", "C19|as_ref-wrong-referent", format!("{} [{}]: as_ref() = {:?}, the referent is {:?}", T::NAME, pool[i].name, x.as_ref().map(|r| r as *const T), pool[i].model));
            continue;
        }
        for j in 0..n {
            let (x, y) = (&pool[i].rc, &pool[j].rc);
            let (ox, oy) = (mref(pool[i].model), mref(pool[j].model));
            mon::eval("trait-model");
            let (sx, sy) = (x.snapshot(&g), y.snapshot(&g));
            let mut bad = Vec::new();
            if (x == y) != (ox == oy) || (sx == sy) != (ox == oy) {
                bad.push(format!("==: Rc {} Snapshot {} model {}", x == y, sx == sy, ox == oy));
            }
            if x.partial_cmp(y) != ox.partial_cmp(&oy) || sx.partial_cmp(&sy) != ox.partial_cmp(&oy) {
                bad.push(format!("partial_cmp: Rc {:?} Snapshot {:?} model {:?}", x.partial_cmp(y), sx.partial_cmp(&sy), ox.partial_cmp(&oy)));
            }
            if x.cmp(y) != ox.cmp(&oy) || sx.cmp(&sy) != ox.cmp(&oy) {
                bad.push(format!("cmp: Rc {:?} Snapshot {:?} model {:?}", x.cmp(y), sx.cmp(&sy), ox.cmp(&oy)));
            }
            if hash1(x) != hash1(&ox) || hash2(x) != hash2(&ox) || hash1(&sx) != hash1(&ox) || hash2(&sx) != hash2(&ox) {
                bad.push("hash differs from Option<&T>'s".into());
            }
            if x == y && (hash1(x) != hash1(y) || hash2(&sx) != hash2(&sy)) {
                bad.push("a == b but hashes differ".into());
            }
            let same = pool[i].ident == pool[j].ident;
            if x.ptr_eq(y) != same || sx.ptr_eq(sy) != same {
                bad.push(format!("ptr_eq: Rc {} Snapshot {} model {} (identity+tag, stamps ignored)", x.ptr_eq(y), sx.ptr_eq(sy), same));
            }
            // laws
            if (x == y) != (y == x) {
                bad.push("== not symmetric".into());
            }
            if x.cmp(y) != y.cmp(x).reverse() {
                bad.push("cmp not antisymmetric".into());
            }
            if (x.cmp(y) == std::cmp::Ordering::Equal) != (x == y) {
                bad.push("cmp/== inconsistent".into());
            }
            if ox.is_none() && oy.is_some() && x.cmp(y) != std::cmp::Ordering::Less {
                bad.push("null is not smallest".into());
            }
            if ox.is_none() && x != y && oy.is_none() {
                bad.push("null != null".into());
            }
            for b in bad {
                report("C19", &format!("C19|trait-model-mismatch|{}", b.split(':').next().unwrap_or("")), format!("{} [{}] vs [{}]: {}", T::NAME, pool[i].name, pool[j].name, b));
            }
            out.case(h(&[40, std::mem::align_of::<T>() as u64, i as u64, j as u64]), || {
                J::obj().set("referent", T::NAME).set("a", pool[i].name.clone()).set("b", pool[j].name.clone()).set("eq", x == y).set("cmp", format!("{:?}", x.cmp(y))).set("ptr_eq", x.ptr_eq(y))
            });
            // transitivity over triples
            for k in 0..n {
                let z = &pool[k].rc;
                mon::eval("trait-model");
                if x == y && y == z && x != z {
                    report("C19", "C19|eq-not-transitive", format!("{} [{}] [{}] [{}]", T::NAME, pool[i].name, pool[j].name, pool[k].name));
                }
                if x <= y && y <= z && !(x <= z) {
                    report("C19", "C19|ord-not-transitive", format!("{} [{}] [{}] [{}]", T::NAME, pool[i].name, pool[j].name, pool[k].name));
                }
                out.evaluations += 1;
            }
        }
        if !(pool[i].rc == pool[i].rc) {
            report("C19", "C19|eq-not-reflexive", pool[i].name.clone());
        }
    }
    drop(g);
    names.extend(pool.iter().map(|p| format!("{}: {}", T::NAME, p.name)));
}

pub fn c19(_seed: u64) -> SeqOut {
    let mut out = SeqOut::new();
    mon::TRACK_OBJS.store(false, SeqCst);
    let mut names = Vec::new();
    // tags up to the largest one the referent's alignment allows; nulls also with the largest tag
    c19_pool::<Item>(&mut out, &[0, 2, 3, 7], &[1, 5, 7], &mut names);
    c19_pool::<Item16>(&mut out, &[0, 3, 8, 15], &[1, 7, 8, 15], &mut names);
    c19_pool::<Item64>(&mut out, &[0, 5, 8, 40, 63], &[1, 7, 8, 32, 63], &mut names);
    c19_partial(&mut out);
    out.exhaustive = true;
    out.extra = J::obj().set("pool", J::A(names.into_iter().map(J::S).collect()));
    out
}

// =============================================================================================
// C06

pub struct LNode {
    drops: &'static AtomicUsize,
    last_drop_epoch: &'static AtomicUsize,
    next: [AtomicRc<LNode>; 2],
    /// hand the edges over with `swap(null)` instead of `take()` (both are legal in `pop_edges`)
    swap_pop: bool,
}
unsafe impl RcObject for LNode {
    fn pop_edges(&mut self, out: &mut Vec<Rc<Self>>) {
        if self.swap_pop {
            out.push(self.next[0].swap(Rc::null(), SeqCst));
            out.push(self.next[1].swap(Rc::null(), SeqCst));
        } else {
            out.push(self.next[0].take());
            out.push(self.next[1].take());
        }
    }
}
static L_SWAP: std::sync::atomic::AtomicBool = std::sync::atomic::AtomicBool::new(false);
impl Drop for LNode {
    fn drop(&mut self) {
        self.drops.fetch_add(1, Relaxed);
        self.last_drop_epoch.store(verif::global_epoch(), Relaxed);
    }
}
static L_DROPS: AtomicUsize = AtomicUsize::new(0);
static L_LAST: AtomicUsize = AtomicUsize::new(0);
fn lnode() -> Rc<LNode> {
    Rc::new(LNode { drops: &L_DROPS, last_drop_epoch: &L_LAST, next: [AtomicRc::null(), AtomicRc::null()], swap_pop: L_SWAP.load(SeqCst) })
}

/// `via`: 0 = all links through edge 0, 1 = through edge 1 (edge 0 stays null), 2 = alternating
fn build_chain(n: usize, hold_at: Option<usize>, via: usize) -> (Rc<LNode>, Option<Rc<LNode>>) {
    // built from the tail so that no recursion happens here
    let g = circ::cs();
    let mut head: Rc<LNode> = Rc::null();
    let mut held = None;
    for i in (0..n).rev() {
        let nd = lnode();
        let k = match via {
            0 => 0,
            1 => 1,
            _ => i % 2,
        };
        nd.as_ref().unwrap().next[k].store(head, SeqCst, &g);
        if hold_at == Some(i) {
            held = Some(nd.clone());
        }
        head = nd;
    }
    (head, held)
}

fn build_tree(depth: u32, arity: usize) -> (Rc<LNode>, usize) {
    // iterative, level by level
    let g = circ::cs();
    let mut level: Vec<Rc<LNode>> = vec![lnode()];
    let root = level[0].clone();
    let mut total = 1;
    for _ in 0..depth {
        let mut next = Vec::new();
        for p in &level {
            for k in 0..arity {
                let c = lnode();
                next.push(c.clone());
                p.as_ref().unwrap().next[k].store(c, SeqCst, &g);
                total += 1;
            }
        }
        level = next;
    }
    (root, total)
}

pub fn c06(_seed: u64, thorough: bool) -> SeqOut {
    let mut out = SeqOut::new();
    mon::TRACK_OBJS.store(false, SeqCst);
    let ns: Vec<usize> = if thorough {
        vec![1, 2, 10, 100, 1000, 1023, 1024, 1025, 2048, 5000, 50_000, 300_000, 1_000_000]
    } else {
        vec![1, 2, 10, 100, 1000, 1023, 1024, 1025, 5000, 50_000]
    };
    let ages: Vec<usize> = if thorough { vec![3, 4, 8, 13, 20, 40] } else { vec![3, 8, 20] };
    let mut worst = Counts::default();
    let mut max_ratio = 0f64;
    let run = |out: &mut SeqOut, worst: &mut Counts, max_ratio: &mut f64, shape: &str, n: usize, age: usize, residue: usize, hold: Option<usize>, tree: Option<(u32, usize)>| {
        let via = match shape {
            "right-spine" => 1,
            "zig-zag" => 2,
            _ => 0,
        };
        L_DROPS.store(0, SeqCst);
        let (head, held, total) = match tree {
            Some((d, a)) => {
                let (r, t) = build_tree(d, a);
                (r, None, t)
            }
            None => {
                let (h, held) = build_chain(n, hold, via);
                (h, held, n)
            }
        };
        churn(age);
        while verif::global_epoch() % 16 != residue {
            churn(1);
        }
        let expect = match hold {
            Some(i) => i,
            None => total,
        };
        let e0 = verif::global_epoch();
        drop(head);
        let mut rounds = 0usize;
        let budget_rounds = 40 * (2 + total / 1024) + 200;
        while L_DROPS.load(SeqCst) < expect && rounds < budget_rounds {
            churn(1);
            rounds += 1;
        }
        mon::eval("latency-bound");
        let got = L_DROPS.load(SeqCst);
        let adv = L_LAST.load(SeqCst).saturating_sub(e0);
        let bound = 12 * (1 + (total + 1023) / 1024);
        if got < expect {
            report("C06", &format!("C06|not-reclaimed|{}", shape), format!("{} n={} age={} residue={}: only {} of {} nodes destructed after {} rounds", shape, total, age, residue, got, expect, rounds));
        } else if adv > bound {
            report(
                "C06",
                &format!("C06|latency-exceeds-bound|{}", shape),
                format!("{} n={} link age={} residue={}: {} epoch advances between dropping the head and the last destructor (bound {} = 12*(1+ceil(n/1024)))", shape, total, age, residue, adv, bound),
            );
        }
        // survivors: the held node and everything behind it stay alive and intact
        if let Some(hnode) = &held {
            churn(12);
            if L_DROPS.load(SeqCst) != expect {
                report("C06", "C06|survivor-destructed", format!("{} n={} hold@{:?}: {} nodes destructed, expected exactly {}", shape, total, hold, L_DROPS.load(SeqCst), expect));
            }
            // walk the surviving suffix
            let g = circ::cs();
            let mut cur = hnode.snapshot(&g);
            let mut len = 0;
            while let Some(nd) = cur.as_ref() {
                len += 1;
                let a = nd.next[0].load(SeqCst, &g);
                cur = if a.is_null() { nd.next[1].load(SeqCst, &g) } else { a };
            }
            if len != total - hold.unwrap() {
                report("C06", "C06|survivor-chain-broken", format!("suffix behind the held node has {} nodes, expected {}", len, total - hold.unwrap()));
            }
        }
        drop(held);
        // clean up the survivors
        let mut r = 0;
        while L_DROPS.load(SeqCst) < total && r < budget_rounds {
            churn(1);
            r += 1;
        }
        let ratio = adv as f64 / bound as f64;
        if ratio > *max_ratio {
            *max_ratio = ratio;
        }
        worst.add(&format!("max_advances|{}|n={}", shape, total), 0);
        let key = format!("max_advances|{}|n={}", shape, total);
        let cur = worst.get(&key);
        if adv as u64 > cur {
            worst.0.insert(key, adv as u64);
        }
        out.case(h(&[50, total as u64, age as u64, residue as u64, hold.map_or(0, |x| x as u64 + 1), tree.map_or(0, |t| t.0 as u64 * 8 + t.1 as u64)]), || {
            J::obj().set("shape", shape).set("n", total).set("link_age", age).set("residue", residue).set("advances", adv).set("bound", bound)
        });
    };
    for &n in &ns {
        let residues: Vec<usize> = if n <= 5000 || thorough && n <= 50_000 { (0..16).collect() } else { vec![0, 5, 14] };
        for &age in &ages {
            if n > 50_000 && age != 8 {
                continue;
            }
            for &r in &residues {
                run(&mut out, &mut worst, &mut max_ratio, "chain", n, age, r, None, None);
            }
        }
    }
    // externally held node
    for &n in &[10usize, 1000, 5000] {
        for hold in [1usize, n / 2, n - 1] {
            for &r in &[0usize, 3, 7, 14, 15] {
                run(&mut out, &mut worst, &mut max_ratio, "chain-held", n, 8, r, Some(hold), None);
            }
        }
    }
    // held node around the recursion cap
    for &n in &[1500usize, 3000] {
        for hold in [1022usize, 1023, 1024, 1025, 1026, 2047, 2048, 2049, 2050] {
            if hold >= n {
                continue;
            }
            for r in 0..16usize {
                if !thorough && r % 2 == 1 && hold > 1026 {
                    continue;
                }
                run(&mut out, &mut worst, &mut max_ratio, "chain-held", n, 8, r, Some(hold), None);
            }
        }
    }
    // chains that hang on the second edge / alternate (null edges before the live one)
    for shape in ["right-spine", "zig-zag"] {
        for &n in &[50usize, 800, 3000] {
            for &r in &[0usize, 3, 6, 9, 12, 15] {
                for &age in &[3usize, 8] {
                    run(&mut out, &mut worst, &mut max_ratio, shape, n, age, r, None, None);
                }
            }
        }
        run(&mut out, &mut worst, &mut max_ratio, shape, 1500, 8, 5, Some(1024), None);
    }
    // nodes whose pop_edges hands the edges over with swap(null) instead of take()
    L_SWAP.store(true, SeqCst);
    for &n in &[50usize, 400, 3000] {
        for &r in &[0usize, 3, 6, 9, 12, 15] {
            for &age in &[3usize, 8] {
                run(&mut out, &mut worst, &mut max_ratio, "chain-swap-pop", n, age, r, None, None);
            }
        }
    }
    run(&mut out, &mut worst, &mut max_ratio, "chain-swap-pop", 1500, 8, 5, Some(1024), None);
    run(&mut out, &mut worst, &mut max_ratio, "tree-swap-pop", 0, 8, 7, None, Some((10, 2)));
    L_SWAP.store(false, SeqCst);
    // trees
    let trees: Vec<(u32, usize)> = if thorough { vec![(3, 2), (10, 2), (14, 2), (17, 2), (20, 1), (1, 2)] } else { vec![(3, 2), (10, 2), (13, 2), (20, 1)] };
    for &(d, a) in &trees {
        for &r in &[0usize, 2, 9, 15] {
            for &age in &[3usize, 8] {
                run(&mut out, &mut worst, &mut max_ratio, "tree", 0, age, r, None, Some((d, a)));
            }
        }
    }
    // ---- shapes with shared nodes (in-degree >= 2 inside the dying structure) and with survivors that are
    // referenced from every node and possibly re-stamped by their holder in every round
    let graph = |out: &mut SeqOut, worst: &mut Counts, max_ratio: &mut f64, shape: &str, n: usize, age: usize, residue: usize, hot: bool| {
        L_DROPS.store(0, SeqCst);
        let mut survivors: Vec<Rc<LNode>> = Vec::new();
        let (head, total, expect) = {
            let g = circ::cs();
            match shape {
                "skiplist" => {
                    // i -> i+1 (edge 0); even i -> i+2 (edge 1)
                    let nodes: Vec<Rc<LNode>> = (0..n).map(|_| lnode()).collect();
                    for i in (0..n).rev() {
                        if i + 1 < n {
                            nodes[i].as_ref().unwrap().next[0].store(nodes[i + 1].clone(), SeqCst, &g);
                        }
                        if i % 2 == 0 && i + 2 < n {
                            nodes[i].as_ref().unwrap().next[1].store(nodes[i + 2].clone(), SeqCst, &g);
                        }
                    }
                    (nodes.into_iter().next().unwrap(), n, n)
                }
                "ladder" => {
                    // A_i -> A_{i+1} (edge 0), A_i -> B_i (edge 1), B_i -> B_{i+1} (edge 0)
                    let m = n / 2;
                    let a: Vec<Rc<LNode>> = (0..m).map(|_| lnode()).collect();
                    let b: Vec<Rc<LNode>> = (0..m).map(|_| lnode()).collect();
                    for i in (0..m).rev() {
                        if i + 1 < m {
                            a[i].as_ref().unwrap().next[0].store(a[i + 1].clone(), SeqCst, &g);
                            b[i].as_ref().unwrap().next[0].store(b[i + 1].clone(), SeqCst, &g);
                        }
                        a[i].as_ref().unwrap().next[1].store(b[i].clone(), SeqCst, &g);
                    }
                    drop(b);
                    (a.into_iter().next().unwrap(), 2 * m, 2 * m)
                }
                "shared-survivor-first" | "shared-survivor-last" => {
                    // every chain node also points to one externally held node S
                    let sv = lnode();
                    let (ks, kn) = if shape == "shared-survivor-first" { (0, 1) } else { (1, 0) };
                    let mut head: Rc<LNode> = Rc::null();
                    for _ in 0..n {
                        let nd = lnode();
                        nd.as_ref().unwrap().next[kn].store(head, SeqCst, &g);
                        nd.as_ref().unwrap().next[ks].store(sv.clone(), SeqCst, &g);
                        head = nd;
                    }
                    survivors.push(sv);
                    (head, n + 1, n)
                }
                _ => {
                    // "tree-held-leaf": root -> [leaf (held elsewhere), chain of n]
                    let root = lnode();
                    let leaf = lnode();
                    let (chain, _) = build_chain(n, None, 0);
                    root.as_ref().unwrap().next[0].store(leaf.clone(), SeqCst, &g);
                    root.as_ref().unwrap().next[1].store(chain, SeqCst, &g);
                    survivors.push(leaf);
                    (root, n + 2, n + 1)
                }
            }
        };
        churn(age);
        while verif::global_epoch() % 16 != residue {
            churn(1);
        }
        if hot {
            for sv in &survivors {
                drop(sv.clone());
            }
        }
        let e0 = verif::global_epoch();
        drop(head);
        let mut rounds = 0usize;
        let budget_rounds = 40 * (2 + total / 1024) + 200;
        while L_DROPS.load(SeqCst) < expect && rounds < budget_rounds {
            if hot {
                // the holder keeps using its node: every use re-stamps it
                for sv in &survivors {
                    drop(sv.clone());
                }
            }
            churn(1);
            rounds += 1;
        }
        mon::eval("latency-bound");
        let got = L_DROPS.load(SeqCst);
        let adv = L_LAST.load(SeqCst).saturating_sub(e0);
        let bound = 12 * (1 + (total + 1023) / 1024);
        let label = if hot { format!("{}-hot", shape) } else { shape.to_string() };
        if got < expect {
            report("C06", &format!("C06|not-reclaimed|{}", label), format!("{} n={} age={} residue={}: only {} of {} nodes destructed after {} rounds", label, total, age, residue, got, expect, rounds));
        } else if adv > bound {
            report(
                "C06",
                &format!("C06|latency-exceeds-bound|{}", label),
                format!("{} n={} link age={} residue={}: {} epoch advances between dropping the head and the last destructor (bound {} = 12*(1+ceil(n/1024)))", label, total, age, residue, adv, bound),
            );
        }
        churn(8);
        if L_DROPS.load(SeqCst) > expect {
            report("C06", "C06|survivor-destructed", format!("{} n={}: {} nodes destructed, expected exactly {} (the held node must survive)", label, total, L_DROPS.load(SeqCst), expect));
        }
        drop(survivors);
        let mut r = 0;
        while L_DROPS.load(SeqCst) < total && r < budget_rounds {
            churn(1);
            r += 1;
        }
        if L_DROPS.load(SeqCst) != total {
            report("C06", &format!("C06|not-reclaimed|{}", label), format!("{} n={}: {} of {} nodes destructed after the survivors were released", label, total, L_DROPS.load(SeqCst), total));
        }
        let ratio = adv as f64 / bound as f64;
        if ratio > *max_ratio {
            *max_ratio = ratio;
        }
        let key = format!("max_advances|{}|n={}", label, total);
        if adv as u64 > worst.get(&key) {
            worst.0.insert(key, adv as u64);
        }
        out.case(h(&[51, shape.len() as u64 * 131 + shape.as_bytes()[0] as u64 + shape.as_bytes()[shape.len() - 1] as u64 * 7, total as u64, age as u64, residue as u64, hot as u64]), || {
            J::obj().set("shape", label.clone()).set("n", total).set("link_age", age).set("residue", residue).set("advances", adv).set("bound", bound)
        });
    };
    for shape in ["skiplist", "ladder", "shared-survivor-first", "shared-survivor-last", "tree-held-leaf"] {
        for &n in &[40usize, 400, 3000] {
            for &r in &[0usize, 5, 11, 14, 15] {
                for &age in &[3usize, 8] {
                    for hot in [false, true] {
                        if hot && (shape == "skiplist" || shape == "ladder") {
                            continue;
                        }
                        graph(&mut out, &mut worst, &mut max_ratio, shape, n, age, r, hot);
                    }
                }
            }
        }
    }
    // ---- the head (or the node at which the recursion paused) is re-acquired and released again while its
    // destruction attempt is pending
    for &n in &[100usize, 1500] {
        for via in 0..2usize {
            for at in 0..=6usize {
                for &r in &[0usize, 4, 9, 15] {
                    for (pos, hold) in [(0usize, false), (1024, false), (0, true), (1024, true)] {
                        if pos >= n {
                            continue;
                        }
                        L_DROPS.store(0, SeqCst);
                        let (head, held) = build_chain(n, Some(pos), 0);
                        let target = held.unwrap();
                        let w = target.downgrade();
                        drop(target);
                        churn(8);
                        while verif::global_epoch() % 16 != r {
                            churn(1);
                        }
                        let e0 = verif::global_epoch();
                        drop(head);
                        churn(at);
                        // re-acquire and release at once
                        let before = L_DROPS.load(SeqCst);
                        let got = if via == 0 {
                            w.upgrade()
                        } else {
                            let g = circ::cs();
                            w.snapshot(&g).upgrade().map(|s| s.counted())
                        };
                        let revived = got.is_some();
                        if hold && revived {
                            // the regained owner is kept for a while: the node and everything behind it must survive
                            let at_upgrade = L_DROPS.load(SeqCst);
                            churn(20);
                            mon::eval("latency-bound");
                            let d = L_DROPS.load(SeqCst);
                            if d > pos || at_upgrade > pos {
                                report(
                                    "C06",
                                    "C06|survivor-destructed|reacquired-and-held",
                                    format!("chain n={} residue={}: node {} was re-acquired {} rounds after the head was dropped and is held, but {} nodes were destructed (only the {} in front of it may be)", n, r, pos, at, d, pos),
                                );
                            }
                        }
                        drop(got);
                        let _ = before;
                        // the latency that counts starts when the regained owner is released
                        let e0 = if hold && revived { verif::global_epoch() } else { e0 };
                        let mut rounds = 0;
                        let budget_rounds = 40 * (2 + n / 1024) + 200;
                        while L_DROPS.load(SeqCst) < n && rounds < budget_rounds {
                            churn(1);
                            rounds += 1;
                        }
                        mon::eval("latency-bound");
                        let adv = L_LAST.load(SeqCst).saturating_sub(e0);
                        let bound = 12 * (2 + (n + 1023) / 1024);
                        if L_DROPS.load(SeqCst) < n {
                            report(
                                "C06",
                                "C06|not-reclaimed|reacquired-and-released",
                                format!("chain n={} residue={}: node {} re-acquired ({}) {} rounds after the head was dropped and released again: only {} of {} nodes destructed after {} rounds", n, r, pos, if via == 0 { "Weak::upgrade" } else { "WeakSnapshot::upgrade+counted" }, at, L_DROPS.load(SeqCst), n, rounds),
                            );
                        } else if adv > bound {
                            report("C06", "C06|latency-exceeds-bound|reacquired-and-released", format!("chain n={} residue={}: {} advances (bound {})", n, r, adv, bound));
                        }
                        drop(w);
                        out.case(h(&[52, n as u64, via as u64, at as u64, r as u64, pos as u64, revived as u64, hold as u64]), || {
                            J::obj().set("shape", "chain-reacquired").set("n", n).set("pos", pos).set("rounds_before_reacquire", at).set("revived", revived).set("advances", adv)
                        });
                    }
                }
            }
        }
    }
    out.extra = J::obj().set("worst", &worst).set("max_advances_over_bound", max_ratio).set(
        "bound",
        "advances <= 12*(1+ceil(n/1024)): one grace period (measured 3-9 advances) per re-deferral at depth 1024",
    );
    out.exhaustive = false;
    out
}

// =============================================================================================
// C05 on deep structures: upgrades racing (in rounds) with a cascade that pauses at its recursion cut-off

pub struct DNode {
    idx: usize,
    next: AtomicRc<DNode>,
}
static D_FLAGS: [AtomicUsize; 4096] = [const { AtomicUsize::new(0) }; 4096];
unsafe impl RcObject for DNode {
    fn pop_edges(&mut self, out: &mut Vec<Rc<Self>>) {
        out.push(self.next.take());
    }
}
impl Drop for DNode {
    fn drop(&mut self) {
        D_FLAGS[self.idx].fetch_add(1, SeqCst);
    }
}

/// For chains longer than the recursion cut-off (1024): weak pointers to nodes around every cut-off depth (and some
/// others) are upgraded after k = 0.. rounds of collection; an upgrade must succeed exactly while the node's
/// destructor has not run, a node must never be destructed while an owner obtained by an upgrade is held, every
/// later upgrade fails, and in the end every node was destructed exactly once.
pub fn c05(seed: u64, thorough: bool) -> SeqOut {
    let mut out = SeqOut::new();
    mon::TRACK_OBJS.store(false, SeqCst);
    let mut rng = Rng::new(seed ^ 0xC05);
    let ns: Vec<usize> = if thorough { vec![10, 1030, 1100, 2100, 3100] } else { vec![10, 1100, 2100] };
    let residues: Vec<usize> = if thorough { (0..16).collect() } else { vec![0, 7, 14, 15] };
    // mode 0: upgrade and release at once; 1: upgrade and hold for some rounds; 2: only after everything is over
    let mut case_no = 0usize;
    let (mut attempts, mut successes) = (0u64, 0u64);
    for &n in &ns {
        for &res in &residues {
            for mode in 0..3usize {
                for via in 0..2usize {
                    for f in D_FLAGS.iter().take(n) {
                        f.store(0, SeqCst);
                    }
                    case_no += 1;
                    let mut pos: Vec<usize> = vec![0, 1, n / 2, n - 1];
                    for c in [1024usize, 2048, 3072] {
                        for d in [-2i64, -1, 0, 1, 2] {
                            let p = c as i64 + d;
                            if p >= 0 && (p as usize) < n {
                                pos.push(p as usize);
                            }
                        }
                    }
                    for _ in 0..3 {
                        pos.push(rng.below(n as u64) as usize);
                    }
                    pos.sort();
                    pos.dedup();
                    let mut weaks: Vec<(usize, Weak<DNode>)> = Vec::new();
                    let head = {
                        let g = circ::cs();
                        let mut head: Rc<DNode> = Rc::null();
                        for i in (0..n).rev() {
                            let nd = Rc::new(DNode { idx: i, next: AtomicRc::null() });
                            nd.as_ref().unwrap().next.store(head, SeqCst, &g);
                            if pos.binary_search(&i).is_ok() {
                                weaks.push((i, nd.downgrade()));
                            }
                            head = nd;
                        }
                        head
                    };
                    churn(6);
                    while verif::global_epoch() % 16 != res {
                        churn(1);
                    }
                    drop(head);
                    let mut held: Vec<(usize, Rc<DNode>, usize)> = Vec::new();
                    let mut failed: Vec<bool> = vec![false; n];
                    let total_rounds = 14 * (2 + n / 1024);
                    let mut bad = false;
                    for round in 0..total_rounds {
                        mon::eval("upgrade-history");
                        // holders first: nothing held may have been destructed
                        for (i, _, _) in &held {
                            if D_FLAGS[*i].load(SeqCst) != 0 {
                                report(
                                    "C05",
                                    "C05|destructed-under-upgraded-owner|deep-chain",
                                    format!("chain n={} residue={}: node {} was destructed while an Rc returned by an upgrade is held (round {})", n, res, i, round),
                                );
                                bad = true;
                            }
                        }
                        held.retain(|(_, _, until)| *until > round);
                        if mode != 2 || round + 1 == total_rounds {
                            for (i, w) in &weaks {
                                if held.iter().any(|h| h.0 == *i) {
                                    continue;
                                }
                                // each weak is tried every 9th round (a revived node must get the chance to be
                                // destructed between two attempts); the phase sweeps over the cases
                                if mode != 2 && (round + 9 - (*i + case_no) % 9) % 9 != 0 {
                                    continue;
                                }
                                attempts += 1;
                                let dropped_before = D_FLAGS[*i].load(SeqCst) != 0;
                                let up = if via == 0 {
                                    w.upgrade()
                                } else {
                                    let g = circ::cs();
                                    w.snapshot(&g).upgrade().map(|s| s.counted())
                                };
                                match up {
                                    Some(r) => {
                                        successes += 1;
                                        if dropped_before || D_FLAGS[*i].load(SeqCst) != 0 {
                                            report(
                                                "C05",
                                                "C05|upgrade-succeeded-after-destruct|deep-chain",
                                                format!("chain n={} residue={}: upgrade of node {} returned a reference in round {} although its destructor had run", n, res, i, round),
                                            );
                                            bad = true;
                                            std::mem::forget(r);
                                            continue;
                                        }
                                        if failed[*i] {
                                            report("C05", "C05|upgrade-succeeded-after-failure|deep-chain", format!("chain n={}: upgrade of node {} succeeded after an earlier upgrade had failed", n, i));
                                            bad = true;
                                        }
                                        if r.as_ref().map(|d| d.idx) != Some(*i) {
                                            report("C05", "C05|upgrade-wrong-object|deep-chain", format!("upgrade of node {} returned another object", i));
                                        }
                                        if mode == 1 && rng.chance(1, 2) {
                                            let until = round + 1 + rng.below(5) as usize;
                                            held.push((*i, r, until));
                                        }
                                    }
                                    None => failed[*i] = true,
                                }
                            }
                        }
                        if bad {
                            break;
                        }
                        churn(1);
                    }
                    for (_, r, _) in held.drain(..) {
                        if bad {
                            std::mem::forget(r);
                        }
                    }
                    if !bad {
                        let mut r = 0;
                        while (0..n).any(|i| D_FLAGS[i].load(SeqCst) == 0) && r < 40 * (2 + n / 1024) {
                            churn(1);
                            r += 1;
                        }
                        let zero = (0..n).filter(|&i| D_FLAGS[i].load(SeqCst) == 0).count();
                        let twice = (0..n).filter(|&i| D_FLAGS[i].load(SeqCst) > 1).count();
                        if zero > 0 || twice > 0 {
                            report(
                                "C05",
                                "C05|deep-chain-not-destructed-exactly-once",
                                format!("chain n={} residue={} mode={}: {} nodes never destructed, {} destructed twice after all owners were released", n, res, mode, zero, twice),
                            );
                        } else {
                            for (i, w) in &weaks {
                                if w.upgrade().is_some() {
                                    report("C05", "C05|upgrade-succeeded-after-destruct|deep-chain", format!("chain n={}: node {} upgrades after the whole chain was destructed", n, i));
                                }
                            }
                        }
                    }
                    drop(weaks);
                    churn(4);
                    out.case(h(&[60, n as u64, res as u64, mode as u64, via as u64]), || J::obj().set("n", n).set("residue", res).set("mode", mode).set("via", via));
                }
            }
        }
    }
    out.extra = J::obj().set("upgrade_attempts", attempts).set("upgrades_succeeded_after_the_head_was_dropped", successes);
    out.exhaustive = false;
    out
}
