//! C17 (the collector's queue) and C18 (the participant list) through the shims, with
//! history checkers (M5).

use crate::hist::{self, LinResult, QCall, QOp};
use crate::json::{Counts, J};
use crate::mon;
use crate::rng::{mix, Rng};
use crate::sched::{self, ExecCfg, Mode, Policy, Stall, ANY};
use circ::verif::{self as V, event as E, site as S, Collector, VElemRef, VList, VQueue};
use std::collections::{HashMap, HashSet};
use std::sync::atomic::{AtomicU64, Ordering::*};
use std::sync::{Arc, Mutex};
use std::time::Instant;

pub struct QlCfg {
    pub which: String,
    pub mode: Mode,
    pub seed: u64,
    pub shard: u64,
    pub execs: u64,
    pub secs: f64,
}

#[derive(Default)]
pub struct QlStats {
    pub execs: u64,
    pub cut: u64,
    pub steps: u64,
    pub switches: u64,
    pub hashes: HashSet<u64>,
    pub nontrivial: HashSet<u64>,
    pub ops: u64,
    pub lin_inconclusive: u64,
    pub site_preempt: Vec<u64>,
    pub stalls: Counts,
    pub samples: Vec<J>,
    pub counters: Counts,
}

fn always(_h: u32) -> bool {
    true
}

fn gen_sched(rng: &mut Rng, nthreads: usize, sites: &[u16]) -> (Policy, Vec<Stall>) {
    let policy = match rng.below(10) {
        0..=4 => {
            let (num, den) = *rng.pick(&[(1u64, 2u64), (1, 3), (1, 6), (1, 15)]);
            Policy::Rand { num, den }
        }
        5..=8 => Policy::Pct { depth: rng.range(1, 5) as u32, est_len: rng.range(50, 800) },
        _ => Policy::Coop,
    };
    let mut stalls = Vec::new();
    for _ in 0..*rng.pick(&[0usize, 1, 1, 2, 2, 3]) {
        stalls.push(Stall {
            thread: if rng.chance(1, 2) { ANY } else { rng.below(nthreads as u64) as u32 },
            site: *rng.pick(sites),
            kth: rng.range(1, 6) as u32,
            max_steps: *rng.pick(&[10u64, 40, 150, 600, 2500]),
            epochs: 0,
            when: None,
            repeat: false,
            until: None,
        });
    }
    (policy, stalls)
}

// =============================================================================================
// C17

fn run_queue(cfg: &QlCfg, eseed: u64, idx: u64, st: &mut QlStats) {
    let mut rng = Rng::new(eseed);
    sched::set_mode(Mode::Off);
    let collector = Collector::new();
    let q: Arc<VQueue<u64>> = Arc::new(VQueue::new());
    let hist: Arc<Mutex<Vec<QOp>>> = Arc::new(Mutex::new(Vec::new()));
    let mut init = Vec::new();
    {
        let h = collector.register();
        let g = h.pin();
        for i in 0..rng.below(4) {
            let v = (99u64 << 32) | i;
            q.push(v, &g);
            init.push(v);
        }
    }
    // every fourth execution: a long prefilled queue and consumers only (long losing streaks at the head)
    let contended = rng.chance(1, 4);
    if contended {
        let h = collector.register();
        let g = h.pin();
        for i in 0..40u64 {
            let v = (98u64 << 32) | i;
            q.push(v, &g);
            init.push(v);
        }
    }
    let nthreads = if contended { 4 } else { rng.range(2, 4) as usize };
    let sites = [
        S::Q_PUSH_TAIL, S::Q_PUSH_NEXT, S::Q_PUSH_HELP, S::Q_PUSH_LINK, S::Q_PUSH_LINK, S::Q_PUSH_SWING, S::Q_PUSH_SWING, S::Q_POP_HEAD,
        S::Q_POP_NEXT, S::Q_POP_NEXT, S::Q_POP_CAS, S::Q_POP_CAS, S::Q_POP_TAIL, S::Q_POP_FIX, S::Q_POP_READ, 120,
    ];
    let (policy, mut stalls) = gen_sched(&mut rng, nthreads, &sites);
    if contended {
        // one consumer is held before every head CAS while the others pop
        stalls.push(Stall { thread: 0, site: S::Q_POP_CAS, kth: 1, max_steps: *rng.pick(&[25u64, 60, 120]), epochs: 0, when: Some(always), repeat: true, until: None });
    }
    let desc = J::obj()
        .set("check", "c17")
        .set("contended", contended)
        .set("mode", format!("{:?}", cfg.mode))
        .set("seed", cfg.seed)
        .set("shard", cfg.shard)
        .set("index", idx)
        .set("threads", nthreads)
        .set("policy", format!("{:?}", policy))
        .set("stalls", J::A(stalls.iter().map(|s| J::S(format!("t={} site={} k={} max_steps={}", if s.thread == ANY { "any".into() } else { s.thread.to_string() }, S::name(s.site), s.kth, s.max_steps))).collect()))
        .set("initial", J::A(init.iter().map(|v| J::U(*v)).collect()));
    mon::set_ctx("c17", desc.clone(), nthreads);
    let mut bodies: Vec<Box<dyn FnOnce() + Send>> = Vec::new();
    for t in 0..nthreads {
        let c = collector.clone();
        let q = q.clone();
        let hist = hist.clone();
        let tseed = mix(eseed, 500 + t as u64);
        // roles: producer-heavy, consumer-heavy or mixed
        let role = if contended { 3 } else { rng.below(3) };
        let nops = if contended { rng.range(8, 13) } else { rng.range(3, 8) };
        bodies.push(Box::new(move || {
            let mut rng = Rng::new(tseed);
            let h = c.register();
            let mut seq = 0u64;
            for _ in 0..nops {
                sched::yield_hook(120);
                let g = h.pin();
                let r = rng.below(10);
                let push = match role {
                    0 => r < 7,
                    1 => r < 2,
                    3 => false,
                    _ => r < 5,
                };
                let inv = mon::stamp();
                let (call, ret) = if push {
                    seq += 1;
                    let v = ((t as u64 + 1) << 32) | seq;
                    q.push(v, &g);
                    (QCall::Push(v), None)
                } else if rng.chance(1, 2) {
                    (QCall::Pop, q.try_pop(&g))
                } else {
                    // k = 1: a predicate that always holds
                    let k = if role == 3 || rng.chance(1, 4) { 1 } else { rng.range(2, 3) };
                    let rr = rng.below(k);
                    (QCall::PopIf(k, rr), q.try_pop_if(|v| *v % k == rr, &g))
                };
                let res = mon::stamp();
                mon::oplog(t as u32, format!("{:?} -> {:?}", call, ret));
                hist.lock().unwrap().push(QOp { thread: t as u32, call, ret, inv, res });
                drop(g);
                sched::note(0xC17 + ((t as u64) << 12));
            }
        }));
    }
    if cfg.mode == Mode::Parallel {
        let site = if rng.chance(2, 3) { Some(*rng.pick(&sites)) } else { None };
        sched::par_config(site, *rng.pick(&[20u32, 100, 500]), rng.range(1, 4) as u32);
    }
    sched::set_mode(cfg.mode);
    let es = sched::run_exec(ExecCfg { seed: eseed, policy, stalls, step_cap: 200_000 }, bodies);
    sched::set_mode(Mode::Off);
    // drain what is left (sequentially) and append to the history
    let mut ops = std::mem::take(&mut *hist.lock().unwrap());
    let mut remaining = Vec::new();
    {
        let h = collector.register();
        let g = h.pin();
        loop {
            let inv = mon::stamp();
            let r = q.try_pop(&g);
            let res = mon::stamp();
            ops.push(QOp { thread: 99, call: QCall::Pop, ret: r, inv, res });
            match r {
                Some(v) => remaining.push(v),
                None => break,
            }
        }
    }
    // cheap necessary conditions
    mon::eval("queue-history");
    let mut pushed: Vec<u64> = init.clone();
    let mut popped: Vec<u64> = Vec::new();
    for o in &ops {
        if let QCall::Push(v) = o.call {
            pushed.push(v);
        }
        if let Some(v) = o.ret {
            popped.push(v);
        }
    }
    let pset: HashSet<u64> = pushed.iter().copied().collect();
    let mut seen = HashSet::new();
    for v in &popped {
        if !pset.contains(v) {
            mon::violation("C17", "C17|popped-value-never-pushed", format!("value {:#x} was popped but never pushed", v));
        }
        if !seen.insert(*v) {
            mon::violation("C17", "C17|value-popped-twice", format!("value {:#x} was popped twice", v));
        }
    }
    if seen.len() != pset.len() {
        let lost: Vec<String> = pset.difference(&seen).take(4).map(|v| format!("{:#x}", v)).collect();
        mon::violation("C17", "C17|value-lost", format!("pushed {} values, popped {} (after draining): lost {:?}", pset.len(), seen.len(), lost));
    }
    // per-consumer, per-producer order
    let mut last: HashMap<(u32, u64), u64> = HashMap::new();
    let mut by_res: Vec<&QOp> = ops.iter().filter(|o| o.ret.is_some()).collect();
    by_res.sort_by_key(|o| o.res);
    for o in by_res {
        let v = o.ret.unwrap();
        let key = (o.thread, v >> 32);
        if let Some(prev) = last.get(&key) {
            if *prev > (v & 0xffff_ffff) {
                mon::violation("C17", "C17|per-producer-order-broken", format!("consumer {} popped {:#x} after a later value of the same producer", o.thread, v));
            }
        }
        last.insert(key, v & 0xffff_ffff);
    }
    // an empty result of a pop whose predicate always holds needs an instant at which the queue was empty:
    // an element whose push returned before the call and whose pop was invoked after it refutes that
    {
        let mut push_ret: HashMap<u64, u64> = init.iter().map(|v| (*v, 0u64)).collect();
        let mut pop_inv: HashMap<u64, u64> = HashMap::new();
        for o in &ops {
            if let QCall::Push(v) = o.call {
                push_ret.insert(v, o.res);
            }
            if let Some(v) = o.ret {
                pop_inv.insert(v, o.inv);
            }
        }
        for o in &ops {
            let always_true = matches!(o.call, QCall::Pop) || matches!(o.call, QCall::PopIf(1, _));
            if always_true && o.ret.is_none() {
                if let Some((v, _)) = push_ret.iter().find(|(v, pr)| **pr < o.inv && pop_inv.get(v).map_or(true, |pi| *pi > o.res)) {
                    mon::violation(
                        "C17",
                        "C17|empty-result-on-nonempty-queue",
                        format!("t{} {:?} @{}..{} returned None although {:#x} was in the queue during the whole call", o.thread, o.call, o.inv, o.res, v),
                    );
                }
            }
        }
    }
    let mut budget = if contended { 200_000u64 } else { 3_000_000u64 };
    match hist::check_queue(&init, &ops, &mut budget) {
        LinResult::Ok => {}
        LinResult::Inconclusive => st.lin_inconclusive += 1,
        LinResult::Violation(s) => mon::violation("C17", "C17|queue-history-not-linearizable", format!("no FIFO linearization: {}", s)),
    }
    drop(q);
    drop(collector);
    st.execs += 1;
    mon::EXECS_DONE.fetch_add(1, SeqCst);
    mon::NONTRIVIAL_DONE.fetch_add(1, SeqCst);
    st.cut += es.cut as u64;
    st.steps += es.steps;
    st.switches += es.switches;
    st.ops += ops.len() as u64;
    for i in 0..sched::NSITE {
        st.site_preempt[i] += es.site_preempt[i];
    }
    for (site, _s, _e, why) in &es.stalls_fired {
        st.stalls.inc(&format!("{}|released-by-{}", if *site == 120 { "op-boundary" } else { S::name(*site) }, why));
    }
    let oplogs = mon::take_oplogs();
    let h = if cfg.mode == Mode::Serial {
        es.hash
    } else {
        let mut h = eseed;
        for o in &ops {
            h = mix(h, o.inv ^ (o.res << 20) ^ o.ret.unwrap_or(7));
        }
        h
    };
    st.hashes.insert(h);
    // relevant: overlapping operations of different threads
    let mut overlap = false;
    for i in 0..ops.len() {
        for j in i + 1..ops.len() {
            if ops[i].thread != ops[j].thread && ops[i].inv < ops[j].res && ops[j].inv < ops[i].res {
                overlap = true;
            }
        }
    }
    if overlap {
        st.nontrivial.insert(h);
        st.counters.inc("histories-with-overlap");
        if st.samples.len() < 3 {
            st.samples.push(desc.set("oplogs", J::A(oplogs.iter().map(|l| J::A(l.iter().map(|s| J::S(s.clone())).collect())).collect())).set("drained", J::A(remaining.iter().map(|v| J::U(*v)).collect())));
        }
    }
    if ops.iter().any(|o| matches!(o.call, QCall::PopIf(..)) && o.ret.is_none()) {
        st.counters.inc("pop_if-refused-or-empty");
    }
}

// =============================================================================================
// C18

static FIN: Mutex<Option<HashMap<usize, (u32, u32)>>> = Mutex::new(None);

fn list_events(kind: u16, a: usize, _b: usize) {
    if kind == E::LIST_FINALIZE || kind == E::LIST_FREE {
        let mut g = FIN.lock().unwrap();
        let m = g.get_or_insert_with(HashMap::new);
        let e = m.entry(a).or_insert((0, 0));
        if kind == E::LIST_FINALIZE {
            e.0 += 1;
            if e.0 > 1 {
                mon::violation("C18", "C18|entry-finalized-twice", format!("list element {} was handed to finalize {} times", a, e.0));
            }
        } else {
            e.1 += 1;
            if e.1 > 1 {
                mon::violation("C18", "C18|entry-freed-twice", format!("list element {} was freed {} times", a, e.1));
            }
        }
    }
}

#[derive(Clone, Debug)]
struct LRec {
    id: usize,
    ins_inv: u64,
    ins_ret: u64,
    del_inv: u64,
    del_ret: u64,
}
#[derive(Clone, Debug)]
struct TRec {
    thread: u32,
    start: u64,
    end: u64,
    seen: Vec<usize>,
    stalled: bool,
}

static NEXT_EL: AtomicU64 = AtomicU64::new(1);

fn run_list(cfg: &QlCfg, eseed: u64, idx: u64, st: &mut QlStats) {
    let mut rng = Rng::new(eseed);
    sched::set_mode(Mode::Off);
    *FIN.lock().unwrap() = Some(HashMap::new());
    let collector = Collector::new();
    let list: Arc<VList> = Arc::new(VList::new());
    let recs: Arc<Mutex<Vec<LRec>>> = Arc::new(Mutex::new(Vec::new()));
    let travs: Arc<Mutex<Vec<TRec>>> = Arc::new(Mutex::new(Vec::new()));
    // elements present from the start
    let mut initial: Vec<(usize, VElemRef)> = Vec::new();
    {
        let h = collector.register();
        let g = h.pin();
        for _ in 0..rng.below(4) {
            let id = NEXT_EL.fetch_add(1, SeqCst) as usize;
            let inv = mon::stamp();
            let r = list.insert(id, &g);
            let ret = mon::stamp();
            recs.lock().unwrap().push(LRec { id, ins_inv: inv, ins_ret: ret, del_inv: u64::MAX, del_ret: u64::MAX });
            initial.push((id, r));
        }
    }
    let nthreads = rng.range(2, 4) as usize;
    let sites = [S::L_DELETE, S::L_INS_LOAD, S::L_INS_STORE, S::L_INS_CAS, S::L_INS_CAS, S::L_ITER_NEXT, S::L_ITER_NEXT, S::L_ITER_UNLINK, S::L_ITER_UNLINK, S::L_ITER_RESTART, 120];
    let (policy, stalls) = gen_sched(&mut rng, nthreads, &sites);
    let desc = J::obj()
        .set("check", "c18")
        .set("mode", format!("{:?}", cfg.mode))
        .set("seed", cfg.seed)
        .set("shard", cfg.shard)
        .set("index", idx)
        .set("threads", nthreads)
        .set("policy", format!("{:?}", policy))
        .set("stalls", J::A(stalls.iter().map(|s| J::S(format!("t={} site={} k={} max_steps={}", if s.thread == ANY { "any".into() } else { s.thread.to_string() }, S::name(s.site), s.kth, s.max_steps))).collect()));
    mon::set_ctx("c18", desc.clone(), nthreads);
    let mut bodies: Vec<Box<dyn FnOnce() + Send>> = Vec::new();
    // initial elements are handed to the threads (each is deleted by exactly one owner)
    let mut owned: Vec<Vec<(usize, VElemRef)>> = vec![Vec::new(); nthreads];
    for (i, e) in initial.into_iter().enumerate() {
        owned[i % nthreads].push(e);
    }
    for t in 0..nthreads {
        let c = collector.clone();
        let list = list.clone();
        let recs = recs.clone();
        let travs = travs.clone();
        let tseed = mix(eseed, 900 + t as u64);
        let nops = rng.range(3, 9);
        let mut mine = std::mem::take(&mut owned[t]);
        bodies.push(Box::new(move || {
            let mut rng = Rng::new(tseed);
            let h = c.register();
            for _ in 0..nops {
                sched::yield_hook(120);
                let g = h.pin();
                match rng.below(10) {
                    0..=2 => {
                        let id = NEXT_EL.fetch_add(1, SeqCst) as usize;
                        let inv = mon::stamp();
                        let r = list.insert(id, &g);
                        let ret = mon::stamp();
                        recs.lock().unwrap().push(LRec { id, ins_inv: inv, ins_ret: ret, del_inv: u64::MAX, del_ret: u64::MAX });
                        mine.push((id, r));
                        mon::oplog(t as u32, format!("insert({})", id));
                    }
                    3..=5 if !mine.is_empty() => {
                        let k = rng.below(mine.len() as u64) as usize;
                        let (id, r) = mine.swap_remove(k);
                        let inv = mon::stamp();
                        {
                            let mut rr = recs.lock().unwrap();
                            rr.iter_mut().find(|x| x.id == id).unwrap().del_inv = inv;
                        }
                        unsafe { list.delete(r, &g) };
                        let ret = mon::stamp();
                        recs.lock().unwrap().iter_mut().find(|x| x.id == id).unwrap().del_ret = ret;
                        mon::oplog(t as u32, format!("delete({})", id));
                    }
                    _ => {
                        let start = mon::stamp();
                        let (seen, stalled) = list.traverse(&g);
                        let end = mon::stamp();
                        mon::oplog(t as u32, format!("traverse -> {:?}{}", seen, if stalled { " STALLED" } else { "" }));
                        travs.lock().unwrap().push(TRec { thread: t as u32, start, end, seen, stalled });
                    }
                }
                drop(g);
                sched::note(0xC18 + ((t as u64) << 12));
            }
            // whatever is still owned is deleted before the thread leaves (like Local::finalize)
            let g = h.pin();
            for (id, r) in mine.drain(..) {
                let inv = mon::stamp();
                recs.lock().unwrap().iter_mut().find(|x| x.id == id).unwrap().del_inv = inv;
                unsafe { list.delete(r, &g) };
                let ret = mon::stamp();
                recs.lock().unwrap().iter_mut().find(|x| x.id == id).unwrap().del_ret = ret;
            }
        }));
    }
    if cfg.mode == Mode::Parallel {
        let site = if rng.chance(2, 3) { Some(*rng.pick(&sites)) } else { None };
        sched::par_config(site, *rng.pick(&[20u32, 100, 500]), rng.range(1, 4) as u32);
    }
    sched::set_mode(cfg.mode);
    let es = sched::run_exec(ExecCfg { seed: eseed, policy, stalls, step_cap: 200_000 }, bodies);
    sched::set_mode(Mode::Off);
    // ---- membership intervals -------------------------------------------------------------------
    let recs = recs.lock().unwrap().clone();
    let travs = travs.lock().unwrap().clone();
    let by_id: HashMap<usize, &LRec> = recs.iter().map(|r| (r.id, r)).collect();
    let mut relevant = false;
    for t in &travs {
        mon::eval("list-history");
        let seen: HashSet<usize> = t.seen.iter().copied().collect();
        if seen.len() != t.seen.len() {
            mon::violation("C18", "C18|element-visited-twice", format!("traversal by t{} visited an element twice: {:?}", t.thread, t.seen));
        }
        for id in &t.seen {
            match by_id.get(id) {
                None => mon::violation("C18", "C18|visited-unknown-element", format!("traversal visited element {} that was never inserted", id)),
                Some(r) => {
                    if r.ins_inv > t.end {
                        mon::violation("C18", "C18|visited-before-insert", format!("traversal [{}..{}] visited element {} whose insert was invoked at {}", t.start, t.end, id, r.ins_inv));
                    }
                    if r.del_ret < t.start {
                        mon::violation("C18", "C18|visited-deleted-element", format!("traversal [{}..{}] visited element {} whose delete returned at {}", t.start, t.end, id, r.del_ret));
                    }
                }
            }
        }
        if !t.stalled {
            for r in &recs {
                if r.ins_ret < t.start && r.del_inv > t.end && !seen.contains(&r.id) {
                    mon::violation(
                        "C18",
                        "C18|traversal-missed-live-element",
                        format!("traversal by t{} [{}..{}] completed without a stall but did not visit element {} (inserted by {}, delete invoked at {}); visited {:?}", t.thread, t.start, t.end, r.id, r.ins_ret, if r.del_inv == u64::MAX { "never".to_string() } else { r.del_inv.to_string() }, t.seen),
                    );
                }
            }
        }
        if recs.iter().any(|r| (r.ins_inv < t.end && r.ins_ret > t.start) || (r.del_inv < t.end && r.del_ret > t.start)) {
            relevant = true;
        }
    }
    // ---- finalize / free exactly once ----------------------------------------------------------
    {
        // a last traversal unlinks whatever is still marked; then the collector goes away
        let h = collector.register();
        for _ in 0..3 {
            let g = h.pin();
            let (seen, _) = list.traverse(&g);
            if !seen.is_empty() {
                mon::violation("C18", "C18|deleted-element-still-visible", format!("all elements were deleted but a traversal still visits {:?}", seen));
            }
        }
    }
    drop(list);
    drop(collector);
    let fin = FIN.lock().unwrap().take().unwrap_or_default();
    for r in &recs {
        let (f, d) = fin.get(&r.id).copied().unwrap_or((0, 0));
        if f != 1 || d != 1 {
            mon::violation("C18", "C18|entry-not-finalized-once", format!("element {}: finalize={} free={} after the list and its collector were dropped", r.id, f, d));
        }
    }
    st.execs += 1;
    mon::EXECS_DONE.fetch_add(1, SeqCst);
    mon::NONTRIVIAL_DONE.fetch_add(1, SeqCst);
    st.cut += es.cut as u64;
    st.steps += es.steps;
    st.switches += es.switches;
    st.ops += (recs.len() + travs.len()) as u64;
    for i in 0..sched::NSITE {
        st.site_preempt[i] += es.site_preempt[i];
    }
    for (site, _s, _e, why) in &es.stalls_fired {
        st.stalls.inc(&format!("{}|released-by-{}", if *site == 120 { "op-boundary" } else { S::name(*site) }, why));
    }
    st.counters.add("traversals", travs.len() as u64);
    st.counters.add("traversals-stalled", travs.iter().filter(|t| t.stalled).count() as u64);
    st.counters.add("elements", recs.len() as u64);
    let oplogs = mon::take_oplogs();
    let h = if cfg.mode == Mode::Serial {
        es.hash
    } else {
        let mut h = eseed;
        for t in &travs {
            h = mix(h, t.start ^ (t.end << 20) ^ t.seen.len() as u64);
        }
        h
    };
    st.hashes.insert(h);
    if relevant {
        st.nontrivial.insert(h);
        if st.samples.len() < 3 {
            st.samples.push(desc.set("oplogs", J::A(oplogs.iter().map(|l| J::A(l.iter().map(|s| J::S(s.clone())).collect())).collect())));
        }
    }
}

pub fn run_batch(cfg: &QlCfg) -> QlStats {
    let mut st = QlStats { site_preempt: vec![0; sched::NSITE], ..Default::default() };
    sched::set_mode(Mode::Off);
    if cfg.which == "c18" {
        mon::set_extra_event(Some(list_events));
    }
    let t0 = Instant::now();
    let mut idx = 0u64;
    while idx < cfg.execs && t0.elapsed().as_secs_f64() < cfg.secs {
        let eseed = mix(mix(cfg.seed, cfg.shard ^ 0x17), idx);
        if cfg.which == "c17" {
            run_queue(cfg, eseed, idx, &mut st);
        } else {
            run_list(cfg, eseed, idx, &mut st);
        }
        idx += 1;
    }
    mon::set_extra_event(None);
    st
}

pub fn summary(cfg: &QlCfg, st: &QlStats, wall: f64) -> J {
    let mut pre = J::obj();
    for i in 0..sched::NSITE {
        if st.site_preempt[i] > 0 {
            pre.put(if i == 120 { "op-boundary" } else { S::name(i as u16) }, st.site_preempt[i]);
        }
    }
    J::obj()
        .set("type", "summary")
        .set("profile", cfg.which.as_str())
        .set("mode", format!("{:?}", cfg.mode))
        .set("execs", st.execs)
        .set("inconclusive_cut", st.cut + st.lin_inconclusive)
        .set("steps", st.steps)
        .set("switches", st.switches)
        .set("distinct", st.hashes.len())
        .set("nontrivial_hashes", J::A(st.nontrivial.iter().map(|h| J::S(format!("{:x}", h))).collect()))
        .set("ops", st.ops)
        .set("lin_inconclusive", st.lin_inconclusive)
        .set("counters", &st.counters)
        .set("site_preempt", pre)
        .set("stalls", &st.stalls)
        .set("monitor_evals", mon::evals_json())
        .set("samples", J::A(st.samples.clone()))
        .set("wall_s", wall)
}
