//! Small deterministic PRNG (splitmix64 seeding + xoshiro256**).

#[derive(Clone, Debug)]
pub struct Rng {
    s: [u64; 4],
}

pub fn splitmix(x: &mut u64) -> u64 {
    *x = x.wrapping_add(0x9E3779B97F4A7C15);
    let mut z = *x;
    z = (z ^ (z >> 30)).wrapping_mul(0xBF58476D1CE4E5B9);
    z = (z ^ (z >> 27)).wrapping_mul(0x94D049BB133111EB);
    z ^ (z >> 31)
}

pub fn mix(a: u64, b: u64) -> u64 {
    let mut x = a ^ b.rotate_left(32) ^ 0x5851F42D4C957F2D;
    splitmix(&mut x)
}

impl Rng {
    pub fn new(seed: u64) -> Self {
        let mut x = seed;
        let s = [
            splitmix(&mut x),
            splitmix(&mut x),
            splitmix(&mut x),
            splitmix(&mut x),
        ];
        Rng { s }
    }
    pub fn next(&mut self) -> u64 {
        let r = self.s[1].wrapping_mul(5).rotate_left(7).wrapping_mul(9);
        let t = self.s[1] << 17;
        self.s[2] ^= self.s[0];
        self.s[3] ^= self.s[1];
        self.s[1] ^= self.s[2];
        self.s[0] ^= self.s[3];
        self.s[2] ^= t;
        self.s[3] = self.s[3].rotate_left(45);
        r
    }
    /// Uniform in 0..n (n > 0).
    pub fn below(&mut self, n: u64) -> u64 {
        debug_assert!(n > 0);
        self.next() % n
    }
    pub fn range(&mut self, lo: u64, hi_incl: u64) -> u64 {
        lo + self.below(hi_incl - lo + 1)
    }
    pub fn chance(&mut self, num: u64, den: u64) -> bool {
        self.below(den) < num
    }
    pub fn pick<'a, T>(&mut self, xs: &'a [T]) -> &'a T {
        &xs[self.below(xs.len() as u64) as usize]
    }
    /// Picks an index according to integer weights.
    pub fn weighted(&mut self, w: &[u32]) -> usize {
        let tot: u64 = w.iter().map(|&x| x as u64).sum();
        let mut r = self.below(tot.max(1));
        for (i, &x) in w.iter().enumerate() {
            if r < x as u64 {
                return i;
            }
            r -= x as u64;
        }
        w.len() - 1
    }
}
