//! vh — verification harness for kaist-cp/circ (runtime monitoring).
//! Prints one JSON record per line on stdout; the driver (`/verif/vcheck`) aggregates them.

mod ds;
mod ebr;
mod hist;
mod json;
mod mon;
mod node;
mod procs;
mod ql;
mod rcprog;
mod rcrun;
mod rng;
mod scen;
mod sched;
mod seq;

use json::J;
use std::collections::HashMap;

pub struct Args(HashMap<String, String>);
impl Args {
    pub fn parse() -> (String, Args) {
        let mut it = std::env::args().skip(1);
        let cmd = it.next().unwrap_or_default();
        let mut m = HashMap::new();
        let rest: Vec<String> = it.collect();
        let mut i = 0;
        while i < rest.len() {
            if let Some(k) = rest[i].strip_prefix("--") {
                if i + 1 < rest.len() && !rest[i + 1].starts_with("--") {
                    m.insert(k.to_string(), rest[i + 1].clone());
                    i += 2;
                } else {
                    m.insert(k.to_string(), "1".to_string());
                    i += 1;
                }
            } else {
                i += 1;
            }
        }
        (cmd, Args(m))
    }
    pub fn u64(&self, k: &str, d: u64) -> u64 {
        self.0.get(k).and_then(|v| v.parse().ok()).unwrap_or(d)
    }
    pub fn f64(&self, k: &str, d: f64) -> f64 {
        self.0.get(k).and_then(|v| v.parse().ok()).unwrap_or(d)
    }
    pub fn str(&self, k: &str, d: &str) -> String {
        self.0.get(k).cloned().unwrap_or_else(|| d.to_string())
    }
    pub fn has(&self, k: &str) -> bool {
        self.0.contains_key(k)
    }
}

fn install_hooks() {
    circ::verif::set_hooks(Some(sched::yield_hook), Some(mon::event_hook));
    // the default collector's Global, for filtering epoch events of private collectors
    let g = circ::cs();
    if let Some(s) = circ::verif::local_state(&g) {
        mon::DEFAULT_GLOBAL.store(s.global, std::sync::atomic::Ordering::SeqCst);
    }
    drop(g);
}

fn main() {
    let (cmd, args) = Args::parse();
    let t0 = std::time::Instant::now();
    match cmd.as_str() {
        "rc" => {
            let prop: &'static str = Box::leak(args.str("prop", "C01").into_boxed_str());
            mon::install_panic_hook(prop);
            install_hooks();
            let mode = match args.str("mode", "S").as_str() {
                "S" => sched::Mode::Serial,
                "P" => sched::Mode::Parallel,
                _ => sched::Mode::Off,
            };
            let cfg = rcrun::RunCfg {
                profile: args.str("profile", "c01"),
                mode,
                seed: args.u64("seed", 1),
                shard: args.u64("shard", 0),
                execs: args.u64("execs", 1_000_000_000),
                secs: args.f64("secs", 1e9),
                relevant: args.str("relevant", "any_destruct"),
            };
            if let Some(one) = args.0.get("only") {
                // replay: run the batch prefix up to and including index `only`
                let n: u64 = one.parse().unwrap();
                let cfg = rcrun::RunCfg { execs: n + 1, ..cfg };
                let st = rcrun::run_batch(&cfg);
                println!("{}", rcrun::summary(&cfg, &st, t0.elapsed().as_secs_f64()).to_string());
            } else {
                let st = rcrun::run_batch(&cfg);
                println!("{}", rcrun::summary(&cfg, &st, t0.elapsed().as_secs_f64()).to_string());
            }
        }
        "seq" => {
            let which = args.str("check", "c10");
            let prop: &'static str = Box::leak(which.to_uppercase().into_boxed_str());
            mon::install_panic_hook(prop);
            install_hooks();
            sched::set_mode(sched::Mode::Off);
            let seed = args.u64("seed", 1);
            let thorough = args.str("tier", "quick") == "thorough";
            let out = match which.as_str() {
                "c10" => seq::c10(seed, thorough),
                "c11" => seq::c11(seed, thorough),
                "c12" => seq::c12(seed, thorough),
                "c19" => seq::c19(seed),
                "c06" => seq::c06(seed, thorough),
                "c05" => seq::c05(seed, thorough),
                _ => mon::harness_error("unknown seq check"),
            };
            println!("{}", seq::summary(&which, out, t0.elapsed().as_secs_f64()).to_string());
        }
        "scen" => {
            let which = args.str("which", "all");
            let prop: &'static str = Box::leak(args.str("prop", "C02").into_boxed_str());
            mon::install_panic_hook(prop);
            install_hooks();
            let thorough = args.str("tier", "quick") == "thorough";
            scen::D10_LEDGER.store((prop != "C16") as usize, std::sync::atomic::Ordering::SeqCst);
            let out = scen::run_all(&which, args.u64("shard", 0), args.u64("nshards", 1), thorough);
            let j = J::obj()
                .set("type", "summary")
                .set("profile", format!("scen-{}", which))
                .set("mode", "Serial-scripted")
                .set("execs", out.execs)
                .set("inconclusive_cut", out.execs - out.materialised)
                .set("distinct", out.hashes.len())
                .set("nontrivial_hashes", J::A(out.hashes.iter().map(|h| J::S(format!("{:x}", h))).collect()))
                .set("scenarios", &out.by)
                .set("samples", J::A(out.samples))
                .set("events", mon::ev_counts_json())
                .set("monitor_evals", mon::evals_json())
                .set("wall_s", t0.elapsed().as_secs_f64());
            println!("{}", j.to_string());
        }
        "c07child" => {
            procs::c07_child(&args.str("shape", "chain"), args.u64("n", 1000) as usize, args.u64("stack", 2 << 20) as usize);
            return;
        }
        "c20child" => {
            procs::c20_child(args.u64("case", 0) as u32, args.u64("order", 0) as u32, args.u64("threads", 1) as usize, args.u64("main-exit", 0) == 1);
            return;
        }
        "c07" | "c20" => {
            let thorough = args.str("tier", "quick") == "thorough";
            let o = if cmd == "c07" {
                procs::c07(thorough, args.u64("shard", 0), args.u64("nshards", 1))
            } else {
                procs::c20(thorough, args.u64("shard", 0), args.u64("nshards", 1))
            };
            println!("{}", procs::summary(&cmd, o, t0.elapsed().as_secs_f64()).to_string());
        }
        "ebr" => {
            let prop: &'static str = Box::leak(args.str("prop", "C13").into_boxed_str());
            mon::install_panic_hook(prop);
            install_hooks();
            mon::TRACK_OBJS.store(false, std::sync::atomic::Ordering::SeqCst);
            let mode = match args.str("mode", "S").as_str() {
                "S" => sched::Mode::Serial,
                "P" => sched::Mode::Parallel,
                _ => sched::Mode::Off,
            };
            let cfg = ebr::EbrCfg {
                profile: args.str("profile", "c13"),
                mode,
                seed: args.u64("seed", 1),
                shard: args.u64("shard", 0),
                execs: args.0.get("only").map(|o| o.parse::<u64>().unwrap() + 1).unwrap_or(args.u64("execs", 1_000_000_000)),
                secs: args.f64("secs", 1e9),
            };
            let st = ebr::run_batch(&cfg);
            println!("{}", ebr::summary(&cfg, &st, t0.elapsed().as_secs_f64()).to_string());
        }
        "c16enum" => {
            mon::install_panic_hook("C16");
            install_hooks();
            mon::TRACK_OBJS.store(false, std::sync::atomic::Ordering::SeqCst);
            let len = args.u64("len", 6) as usize;
            let (programs, evals) = ebr::c16_enum(len);
            let j = J::obj()
                .set("type", "summary")
                .set("profile", "c16-enum")
                .set("mode", "sequential")
                .set("execs", programs)
                .set("inconclusive_cut", 0u64)
                .set("distinct", programs)
                .set("nontrivial_hashes", J::A((0..programs.min(5000)).map(|i| J::S(format!("p{}", i))).collect()))
                .set("distinct_programs", programs)
                .set("model_evaluations", evals)
                .set("max_len", len)
                .set("exhaustive", true)
                .set("samples", J::A(vec![J::obj().set("program", "all sequences of {pin, drop, reactivate, reactivate_after} x 2 guard slots up to max_len, another participant advancing the epoch between steps")]))
                .set("monitor_evals", mon::evals_json())
                .set("wall_s", t0.elapsed().as_secs_f64());
            println!("{}", j.to_string());
        }
        "ds" => {
            let prop: &'static str = Box::leak(args.str("prop", "C02").into_boxed_str());
            mon::install_panic_hook(prop);
            install_hooks();
            let mode = match args.str("mode", "S").as_str() {
                "S" => sched::Mode::Serial,
                "P" => sched::Mode::Parallel,
                _ => sched::Mode::Off,
            };
            let cfg = ds::DsCfg {
                which: args.str("which", "harris"),
                mode,
                seed: args.u64("seed", 1),
                shard: args.u64("shard", 0),
                execs: args.0.get("only").map(|o| o.parse::<u64>().unwrap() + 1).unwrap_or(args.u64("execs", 1_000_000_000)),
                secs: args.f64("secs", 1e9),
            };
            let st = ds::run_batch(&cfg);
            println!("{}", ds::summary(&cfg, &st, t0.elapsed().as_secs_f64()).to_string());
        }
        "ql" => {
            let which = args.str("which", "c17");
            let prop: &'static str = Box::leak(which.to_uppercase().into_boxed_str());
            mon::install_panic_hook(prop);
            install_hooks();
            mon::TRACK_OBJS.store(false, std::sync::atomic::Ordering::SeqCst);
            let mode = match args.str("mode", "S").as_str() {
                "S" => sched::Mode::Serial,
                "P" => sched::Mode::Parallel,
                _ => sched::Mode::Off,
            };
            let cfg = ql::QlCfg {
                which,
                mode,
                seed: args.u64("seed", 1),
                shard: args.u64("shard", 0),
                execs: args.0.get("only").map(|o| o.parse::<u64>().unwrap() + 1).unwrap_or(args.u64("execs", 1_000_000_000)),
                secs: args.f64("secs", 1e9),
            };
            let st = ql::run_batch(&cfg);
            println!("{}", ql::summary(&cfg, &st, t0.elapsed().as_secs_f64()).to_string());
        }
        "noop" => {}
        _ => {
            println!("{}", J::obj().set("type", "harness_error").set("detail", format!("unknown command {:?}", cmd)).to_string());
            std::process::exit(4);
        }
    }
    println!("{}", J::obj().set("type", "done").to_string());
}
