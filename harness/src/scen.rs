//! Scripted choreographies (directed workloads) under the serialized scheduler. The oracles are
//! the ordinary monitors (ledger, cookies, exactly-once, audits); the scripts only arrange for
//! the threads to be at particular yield points at particular epochs.

use crate::json::{Counts, J};
use crate::mon::{self, obj};
use crate::node::{new_node, VNode};
use crate::rcrun::{churn, drain};
use crate::sched::{self, ExecCfg, Mode, Policy, Stall};
use circ::verif::{self, site as S};
use circ::{AtomicRc, AtomicWeak, Rc, Weak};
use std::collections::HashSet;
use std::sync::atomic::{AtomicUsize, Ordering::*};
use std::sync::Arc;

static F: [AtomicUsize; 16] = [const { AtomicUsize::new(0) }; 16];
static TARGET: AtomicUsize = AtomicUsize::new(usize::MAX);

fn set(i: usize, v: usize) {
    F[i].store(v, SeqCst);
}
fn get(i: usize) -> usize {
    F[i].load(SeqCst)
}
fn flag_eq(i: usize, v: usize) -> bool {
    get(i) == v
}
fn wait(i: usize, v: usize) {
    if !sched::block_on(flag_eq, i, v) {
        // the choreography did not materialise (e.g. a stall never fired); carry on
        NOT_MATERIALISED.fetch_add(1, SeqCst);
    }
}
static NOT_MATERIALISED: AtomicUsize = AtomicUsize::new(0);

fn stall(thread: u32, site: u16, when: Option<fn(u32) -> bool>, until: fn() -> bool, repeat: bool) -> Stall {
    Stall { thread, site, kth: 1, max_steps: 2_000_000, epochs: 0, when, repeat, until: Some(until) }
}

struct Sh {
    roots: Vec<AtomicRc<VNode>>,
    wroots: Vec<AtomicWeak<VNode>>,
}

fn l_rc(id: u32, d: i32) {
    obj(id).rc.fetch_add(d, SeqCst);
}
fn l_snap(id: u32, origin: usize, d: i32) {
    obj(id).snap.fetch_add(d, SeqCst);
    obj(id).snap_by[origin].fetch_add(d, SeqCst);
    obj(id).had_snap.store(true, SeqCst);
}

fn reset(residue: usize, min_epoch: usize) {
    sched::set_mode(Mode::Off);
    if drain(400).is_none() {
        mon::harness_error("scenario: cannot drain");
    }
    mon::reset_objs();
    for f in &F {
        f.store(0, SeqCst);
    }
    TARGET.store(usize::MAX, SeqCst);
    while verif::global_epoch() < min_epoch || verif::global_epoch() % 16 != residue {
        churn(1);
    }
}

fn finish(sh: &Sh) {
    sched::set_mode(Mode::Off);
    let g = circ::cs();
    for r in &sh.roots {
        r.store(Rc::null(), SeqCst, &g);
    }
    for r in &sh.wroots {
        r.store(Weak::null(), SeqCst, &g);
    }
    drop(g);
    if drain(600).is_none() {
        mon::violation("C04", "C04|garbage-not-reclaimed-within-bound", "scenario: deferrals still pending after 600 rounds".into());
    }
    let n = mon::n_objs();
    for j in 1..n {
        let o = obj(j);
        if o.addr.load(SeqCst) != 0 && (o.drop.load(SeqCst) != 1 || o.dealloc.load(SeqCst) != 1) {
            mon::violation("C04", "C04|leak-object-at-end", format!("scenario: obj {} drop={} dealloc={} at the end", j, o.drop.load(SeqCst), o.dealloc.load(SeqCst)));
        }
    }
}

fn run(name: &str, desc: J, stalls: Vec<Stall>, bodies: Vec<Box<dyn FnOnce() + Send>>) -> sched::ExecStats {
    mon::set_ctx(name, desc, bodies.len());
    sched::set_mode(Mode::Serial);
    let st = sched::run_exec(ExecCfg { seed: 7, policy: Policy::Coop, stalls, step_cap: 50_000_000 }, bodies);
    sched::set_mode(Mode::Off);
    st
}

// ---------------------------------------------------------------------------------------------
// D4: upgrade from a zero count, stalled between the two additions while the pending
// destruction attempt runs.

fn until_f0() -> bool {
    get(0) == 1
}

pub fn d4(residue: usize, k: usize) -> bool {
    reset(residue, 0);
    let sh = Arc::new(Sh { roots: vec![], wroots: vec![] });
    let (x, xid) = new_node(3);
    let w = x.downgrade();
    obj(xid).weak.fetch_add(1, SeqCst);
    drop(x); // count 0, attempt pending in the controller's bag
    churn(1); // hand the bag over
    let stalls = vec![stall(0, S::INCS_ADD2, None, until_f0, false)];
    let b0: Box<dyn FnOnce() + Send> = Box::new(move || {
        mon::oplog(0, "r = w.upgrade()".into());
        let r = w.upgrade();
        let got = r.is_some();
        if got {
            l_rc(xid, 1);
        }
        mon::oplog(0, format!("upgrade -> {}", got));
        set(1, 1);
        wait(2, 1);
        if let Some(r) = &r {
            r.as_ref().unwrap().check_live(Some(xid), "C01", "Weak::upgrade");
        }
        if got {
            l_rc(xid, -1);
        }
        drop(r);
        obj(xid).weak.fetch_sub(1, SeqCst);
        drop(w);
    });
    let b1: Box<dyn FnOnce() + Send> = Box::new(move || {
        sched::block_until(|| sched::is_stalled(0) || get(1) == 1);
        mon::oplog(1, format!("churn x{} while the upgrader is between its two additions", k));
        churn(k);
        set(0, 1);
        wait(1, 1);
        mon::oplog(1, "churn x24 while the upgraded Rc is held".into());
        churn(24);
        set(2, 1);
    });
    let st = run("d4", J::obj().set("scenario", "d4").set("residue", residue).set("churns_during_stall", k), stalls, vec![b0, b1]);
    finish(&sh);
    st.stalls_fired.iter().any(|s| s.0 == S::INCS_ADD2)
}

// ---------------------------------------------------------------------------------------------
// D5: WeakSnapshot::upgrade (count > 0) against a cascade that is already due.

fn when_target(_h: u32) -> bool {
    verif::global_epoch() >= TARGET.load(SeqCst)
}
fn until_f2() -> bool {
    get(2) == 2
}

/// variant: bit 0 = the child gets a stamp (non-final decrement) in the epoch in which the parent
/// is released; bit 1 = two links from the parent to the child; bit 2 = diamond (two paths).
pub fn d5(residue: usize, age: usize, variant: usize) -> bool {
    reset(residue, 0);
    let (p, _pid) = new_node(3);
    let (x, xid) = new_node(3);
    let sh = Arc::new(Sh { roots: vec![AtomicRc::null()], wroots: vec![AtomicWeak::null()] });
    let extra = if variant & 1 != 0 { Some(x.clone()) } else { None };
    {
        let g = circ::cs();
        sh.wroots[0].store(x.downgrade(), SeqCst, &g);
        if variant & 4 != 0 {
            let (a, _) = new_node(3);
            let (b, _) = new_node(3);
            a.as_ref().unwrap().next[0].store(x.clone(), SeqCst, &g);
            b.as_ref().unwrap().next[1].store(x, SeqCst, &g);
            p.as_ref().unwrap().next[0].store(a, SeqCst, &g);
            p.as_ref().unwrap().next[1].store(b, SeqCst, &g);
        } else {
            if variant & 2 != 0 {
                p.as_ref().unwrap().next[1].store(x.clone(), SeqCst, &g);
            }
            p.as_ref().unwrap().next[0].store(x, SeqCst, &g);
        }
        sh.roots[0].store(p, SeqCst, &g);
    }
    churn(age);
    let stalls = vec![stall(0, S::COLLECT_AFTER_ADVANCE, Some(when_target), until_f2, false)];
    let s0 = sh.clone();
    let b0: Box<dyn FnOnce() + Send> = Box::new(move || {
        if extra.is_some() {
            mon::oplog(0, "drop(extra Rc to the child)  (stamps the child now)".into());
        }
        drop(extra);
        {
            let g = circ::cs();
            mon::oplog(0, "root0.store(null)  (parent's last owner)".into());
            s0.roots[0].store(Rc::null(), SeqCst, &g);
        }
        TARGET.store(verif::global_epoch() + 3, SeqCst);
        mon::oplog(0, "churn x12 (stalls in collect once the parent's bag has expired)".into());
        churn(12);
        set(5, 1);
    });
    let s1 = sh.clone();
    let b1: Box<dyn FnOnce() + Send> = Box::new(move || {
        sched::block_until(|| sched::is_stalled(0) || get(5) == 1);
        let g = circ::cs();
        let ws = s1.wroots[0].load(SeqCst, &g);
        let s = ws.upgrade();
        mon::oplog(1, format!("g = cs(); ws = wroot0.load(); ws.upgrade() -> {}", s.is_some()));
        if s.is_some() {
            l_snap(xid, 5, 1);
        }
        set(2, 2);
        wait(5, 1);
        if let Some(s) = s {
            if let Some(n) = s.as_ref() {
                n.check_live(Some(xid), "C02", mon::ORIGINS[5]);
            }
            l_snap(xid, 5, -1);
        }
        drop(g);
    });
    let st = run("d5", J::obj().set("scenario", "d5").set("residue", residue).set("link_age", age).set("variant", variant), stalls, vec![b0, b1]);
    finish(&sh);
    st.stalls_fired.iter().any(|s| s.0 == S::COLLECT_AFTER_ADVANCE)
}

// ---------------------------------------------------------------------------------------------
// D6: a dropper stalled after reading the epoch overwrites a newer stamp.

fn until_f1() -> bool {
    get(1) == 2
}

pub fn d6(residue: usize, age: usize) -> bool {
    reset(residue, 0);
    let (p, _pid) = new_node(3);
    let (x, xid) = new_node(3);
    let sh = Arc::new(Sh { roots: vec![AtomicRc::null(), AtomicRc::null(), AtomicRc::null()], wroots: vec![] });
    {
        let g = circ::cs();
        sh.roots[1].store(x.clone(), SeqCst, &g);
        sh.roots[2].store(x.clone(), SeqCst, &g);
        p.as_ref().unwrap().next[0].store(x, SeqCst, &g);
        sh.roots[0].store(p, SeqCst, &g);
    }
    churn(age);
    let stalls = vec![
        stall(0, S::DECS_LOAD, None, until_f1, false),
        stall(1, S::COLLECT_AFTER_ADVANCE, Some(when_target), until_f2, false),
    ];
    let s0 = sh.clone();
    let b0: Box<dyn FnOnce() + Send> = Box::new(move || {
        mon::oplog(0, "old = root1.swap(null); drop(old)  (stalls after reading the epoch)".into());
        let old = s0.roots[1].swap(Rc::null(), SeqCst);
        drop(old);
        set(6, 1);
    });
    let s1 = sh.clone();
    let b1: Box<dyn FnOnce() + Send> = Box::new(move || {
        sched::block_until(|| sched::is_stalled(0) || get(6) == 1);
        churn(4);
        {
            let g = circ::cs();
            mon::oplog(1, "root0.store(null)  (parent's last owner)".into());
            s1.roots[0].store(Rc::null(), SeqCst, &g);
        }
        TARGET.store(verif::global_epoch() + 3, SeqCst);
        churn(12);
        set(5, 1);
    });
    let s2 = sh.clone();
    let b2: Box<dyn FnOnce() + Send> = Box::new(move || {
        sched::block_until(|| sched::is_stalled(1) || get(5) == 1);
        let g = circ::cs();
        let s = s2.roots[2].load(SeqCst, &g);
        mon::oplog(2, format!("g = cs(); s = root2.load() -> null={}", s.is_null()));
        if !s.is_null() {
            l_snap(xid, 0, 1);
        }
        let old = s2.roots[2].swap(Rc::null(), SeqCst);
        mon::oplog(2, "old = root2.swap(null); drop(old)  (fresh stamp)".into());
        drop(old);
        set(1, 2); // release the stalled dropper: its stale stamp goes in
        wait(6, 1);
        set(2, 2); // release the collector
        wait(5, 1);
        if let Some(n) = s.as_ref() {
            n.check_live(Some(xid), "C02", "load");
        }
        if !s.is_null() {
            l_snap(xid, 0, -1);
        }
        drop(g);
    });
    let st = run("d6", J::obj().set("scenario", "d6").set("residue", residue).set("link_age", age), stalls, vec![b0, b1, b2]);
    finish(&sh);
    st.stalls_fired.iter().any(|s| s.0 == S::DECS_LOAD) && st.stalls_fired.iter().any(|s| s.0 == S::COLLECT_AFTER_ADVANCE)
}

// ---------------------------------------------------------------------------------------------
// D7: the modular window computed once per parent goes stale while an earlier sibling's
// subtree is being reclaimed.

fn when_130(h: u32) -> bool {
    if h % 130 == 0 && h <= 650 {
        set(3, 0);
        set(8, 1);
        true
    } else {
        false
    }
}
fn until_f3() -> bool {
    get(3) == 1
}
fn when_final(h: u32) -> bool {
    if h == 651 {
        set(7, 1);
        true
    } else {
        false
    }
}
fn until_f4() -> bool {
    get(4) == 2
}

pub fn d7(residue: usize, chain: usize) -> bool {
    reset(residue, 16);
    let (p, _pid) = new_node(3);
    let (b, bid) = new_node(3);
    let sh = Arc::new(Sh { roots: vec![AtomicRc::null(), AtomicRc::null(), AtomicRc::null()], wroots: vec![] });
    {
        let g = circ::cs();
        let mut head: Rc<VNode> = Rc::null();
        for _ in 0..chain {
            let (n, _) = new_node(3);
            n.as_ref().unwrap().next[0].store(head, SeqCst, &g);
            head = n;
        }
        sh.roots[2].store(b.clone(), SeqCst, &g);
        p.as_ref().unwrap().next[0].store(head, SeqCst, &g);
        p.as_ref().unwrap().next[1].store(b, SeqCst, &g);
        sh.roots[0].store(p, SeqCst, &g);
    }
    churn(1);
    let stalls = vec![
        stall(0, S::DISP_CHILD, Some(when_130), until_f3, true),
        stall(0, S::DISP_CHILD, Some(when_final), until_f4, false),
    ];
    let s0 = sh.clone();
    let b0: Box<dyn FnOnce() + Send> = Box::new(move || {
        {
            let g = circ::cs();
            s0.roots[0].store(Rc::null(), SeqCst, &g);
        }
        mon::oplog(0, "root0.store(null); churn x12 (the cascade is paused every 130 children)".into());
        churn(12);
        set(5, 1);
    });
    let b1: Box<dyn FnOnce() + Send> = Box::new(move || {
        // churner: one epoch advance each time the cascade pauses
        loop {
            sched::block_until(|| get(8) == 1 || get(5) == 1);
            if get(5) == 1 {
                break;
            }
            set(8, 0);
            churn(4);
            set(3, 1);
        }
    });
    let s2 = sh.clone();
    let b2: Box<dyn FnOnce() + Send> = Box::new(move || {
        sched::block_until(|| get(7) == 1 || get(5) == 1);
        let g = circ::cs();
        let s = s2.roots[2].load(SeqCst, &g);
        if !s.is_null() {
            l_snap(bid, 0, 1);
        }
        mon::oplog(2, format!("g = cs() at epoch {}; s = root2.load(); root2.swap(null); drop(old)", verif::global_epoch()));
        let old = s2.roots[2].swap(Rc::null(), SeqCst);
        drop(old);
        set(4, 2);
        wait(5, 1);
        if let Some(n) = s.as_ref() {
            n.check_live(Some(bid), "C02", "load");
        }
        if !s.is_null() {
            l_snap(bid, 0, -1);
        }
        drop(g);
    });
    let st = run("d7", J::obj().set("scenario", "d7").set("residue", residue).set("left_chain", chain), stalls, vec![b0, b1, b2]);
    finish(&sh);
    st.stalls_fired.iter().filter(|s| s.0 == S::DISP_CHILD).count() >= 6
}

// ---------------------------------------------------------------------------------------------
// D10 (open finding): a guard taken inside a payload destructor that runs during collection does
// not protect: the collecting thread's announced epoch is moved forward under it.

pub static D10_LEDGER: AtomicUsize = AtomicUsize::new(1);

pub struct Big {
    cell: Arc<Sh>,
    sid: u32,
    next: AtomicRc<Big>,
}
unsafe impl circ::RcObject for Big {
    fn pop_edges(&mut self, out: &mut Vec<Rc<Self>>) {
        out.push(self.next.take());
    }
}
pub struct Tiny {
    next: AtomicRc<Tiny>,
}
unsafe impl circ::RcObject for Tiny {
    fn pop_edges(&mut self, out: &mut Vec<Rc<Self>>) {
        out.push(self.next.take());
    }
}
impl Drop for Big {
    fn drop(&mut self) {
        // user destructor, running inside a collection
        let in_collect = mon::IN_COLLECT.with(|c| c.get()) > 0;
        let g = circ::cs();
        let a0 = verif::local_state(&g).map(|s| s.announced).unwrap_or(0);
        let s = self.cell.roots[0].load(SeqCst, &g);
        let ledger = D10_LEDGER.load(SeqCst) == 1;
        if !s.is_null() && ledger {
            l_snap(self.sid, 0, 1);
            obj(self.sid).snap_dtor_ctx.fetch_add(1, SeqCst);
        }
        mon::oplog(0, format!("Big::drop (inside collection: {}): g = cs() at epoch {}; s = cell.load()", in_collect, a0));
        set(1, 1); // let the other thread unlink S
        wait(2, 1);
        for round in 0..6 {
            // 64 zero-hitting drops fill the local bag: push_bag + schedule_collection (re-pin)
            for _ in 0..64 {
                drop(Rc::new(Tiny { next: AtomicRc::null() }));
            }
            set(3, 2 * round + 1);
            wait(4, 2 * round + 2);
        }
        let a1 = verif::local_state(&g).map(|s| s.announced).unwrap_or(0);
        mon::eval("guard-model");
        if a1 != a0 {
            mon::report(
                "C16",
                "C16|epoch-moved-under-live-guard|context=destructor-during-collection",
                format!("a guard taken inside a destructor that runs during collection: the participant's announced epoch moved from {} to {} while the guard was live", a0, a1),
            );
        }
        if ledger {
            if let Some(n) = s.as_ref() {
                n.check_live(Some(self.sid), "C02", "load|context=destructor-during-collection");
            }
        }
        if !s.is_null() && ledger {
            obj(self.sid).snap_dtor_ctx.fetch_sub(1, SeqCst);
            l_snap(self.sid, 0, -1);
        }
        drop(g);
        set(9, 1);
    }
}

pub fn d10(residue: usize) -> bool {
    reset(residue, 0);
    mon::TRACK_OBJS.store(true, SeqCst);
    let (leaf, sid) = new_node(3);
    let sh = Arc::new(Sh { roots: vec![AtomicRc::null()], wroots: vec![] });
    {
        let g = circ::cs();
        sh.roots[0].store(leaf, SeqCst, &g);
    }
    let big = Rc::new(Big { cell: sh.clone(), sid, next: AtomicRc::null() });
    churn(2);
    let b0: Box<dyn FnOnce() + Send> = Box::new(move || {
        drop(big);
        mon::oplog(0, "drop(big); churn x12 (Big::drop runs inside one of these collections)".into());
        churn(12);
        set(9, 1);
    });
    let s1 = sh.clone();
    let b1: Box<dyn FnOnce() + Send> = Box::new(move || {
        sched::block_until(|| get(1) == 1 || get(9) == 1);
        if get(1) != 1 {
            return;
        }
        let old = s1.roots[0].swap(Rc::null(), SeqCst);
        drop(old);
        churn(1);
        mon::oplog(1, "old = cell.swap(null); drop(old); flush".into());
        set(2, 1);
        for round in 0..6 {
            sched::block_until(|| get(3) == 2 * round + 1 || get(9) == 1);
            churn(2);
            set(4, 2 * round + 2);
        }
    });
    let st = run("d10", J::obj().set("scenario", "d10").set("residue", residue), vec![], vec![b0, b1]);
    let _ = st;
    finish(&sh);
    get(1) == 1
}

// ---------------------------------------------------------------------------------------------
// d13: explicit flushes inside one long critical section while a staggered backlog of long chains
// becomes due. Nothing may be reclaimed under the guard, however often it flushes.

pub fn d13(residue: usize, chain: usize) -> bool {
    reset(residue, 0);
    let (x, xid) = new_node(3);
    let sh = Arc::new(Sh { roots: vec![AtomicRc::null()], wroots: vec![] });
    {
        let g = circ::cs();
        sh.roots[0].store(x, SeqCst, &g);
    }
    // staggered backlog: chain k is retired in epoch e+k
    for _ in 0..3 {
        let head = {
            let g = circ::cs();
            let mut head: Rc<VNode> = Rc::null();
            for _ in 0..chain {
                let (n, _) = new_node(3);
                n.as_ref().unwrap().next[0].store(head, SeqCst, &g);
                head = n;
            }
            head
        };
        drop(head);
        churn(1);
    }
    let s0 = sh.clone();
    let b0: Box<dyn FnOnce() + Send> = Box::new(move || {
        let g = circ::cs();
        let a0 = verif::local_state(&g).map_or(0, |s| s.announced);
        let s = s0.roots[0].load(SeqCst, &g);
        if !s.is_null() {
            l_snap(xid, 0, 1);
        }
        mon::oplog(0, format!("g = cs() at epoch {}; s = root0.load()", a0));
        set(1, 1);
        wait(2, 1);
        for round in 0..8 {
            g.flush();
            let a = verif::local_state(&g).map_or(0, |s| s.announced);
            if std::env::var("D13_DEBUG").is_ok() {
                eprintln!("round {} announced {} (a0 {}) global {} pending {}", round, a, a0, verif::global_epoch(), mon::RC_PENDING.load(SeqCst));
            }
            mon::eval("guard-model");
            if a != a0 {
                mon::observer_violation(
                    "C16",
                    "C16|announced-epoch-moved-under-live-guard",
                    format!("scenario d13: after flush #{} under a live guard the participant announces {} instead of {}", round + 1, a, a0),
                );
            }
            if let Some(n) = s.as_ref() {
                n.check_live(Some(xid), "C02", "load");
            }
        }
        if !s.is_null() {
            l_snap(xid, 0, -1);
        }
        drop(g);
        set(9, 1);
    });
    let s1 = sh.clone();
    let b1: Box<dyn FnOnce() + Send> = Box::new(move || {
        wait(1, 1);
        let old = s1.roots[0].swap(Rc::null(), SeqCst);
        drop(old);
        mon::oplog(1, "old = root0.swap(null); drop(old); thread exits (its bag is handed over without a collection)".into());
        set(2, 1);
    });
    let _ = run("d13", J::obj().set("scenario", "d13").set("residue", residue).set("chain", chain), vec![], vec![b0, b1]);
    finish(&sh);
    get(9) == 1
}

// ---------------------------------------------------------------------------------------------
// D14: a long critical section whose owner keeps doing guard-level and retirement work (inner guards
// re-activated / re-created / flushed, bursts of retirements under the outer guard) while another
// thread unlinks what the outer guard protects and drives collection rounds in lock step.
pub const D14_OPS: usize = 10;
/// An object whose destruction produces more garbage (it owns an `Rc` in a plain field).
pub struct Holder {
    #[allow(dead_code)]
    p: Rc<Tiny>,
    next: AtomicRc<Holder>,
}
unsafe impl circ::RcObject for Holder {
    fn pop_edges(&mut self, out: &mut Vec<Rc<Self>>) {
        out.push(self.next.take());
    }
}
/// `prelude` (on the reader's thread, before it enters its critical section): 0 = nothing; 1 = 12000 objects whose
/// destruction produces more garbage are retired and become due together, so that one unpin needs a dozen
/// back-to-back collection rounds; 2 = three chains of 400 nodes retired in consecutive epochs (a backlog that
/// becomes due while the reader is inside its critical section).
pub fn d14(residue: usize, inner_op: usize, holder: usize, prelude: usize) -> bool {
    reset(residue, 0);
    let (x, xid) = new_node(3);
    let sh = Arc::new(Sh { roots: vec![AtomicRc::null(), AtomicRc::null()], wroots: vec![AtomicWeak::null()] });
    {
        let g = circ::cs();
        let w = x.downgrade();
        obj(xid).weak.fetch_add(1, SeqCst);
        sh.wroots[0].store(w, SeqCst, &g);
        if holder == 1 || holder == 3 {
            // 1: only the block survives (held by the weak root); 3: the object's destruction is still pending
            // (due one epoch after the reader pins) when the reader loads its WeakSnapshot
            drop(x);
        } else {
            l_rc(xid, 1);
            sh.roots[0].store(x, SeqCst, &g);
            l_rc(xid, -1);
        }
    }
    if holder == 1 {
        if drain(200).is_none() {
            mon::harness_error("d14 setup: cannot drain");
        }
    }
    if holder == 3 {
        churn(2);
    }
    let rounds = 10usize;
    let s0 = sh.clone();
    let b0: Box<dyn FnOnce() + Send> = Box::new(move || {
        let c01 = mon::check_prop() == "C01";
        match prelude {
            1 => {
                {
                    let g = circ::cs();
                    for _ in 0..12000 {
                        drop(Rc::new(Holder { p: Rc::new(Tiny { next: AtomicRc::null() }), next: AtomicRc::null() }));
                    }
                    drop(g);
                }
                churn(5);
            }
            2 => {
                for _ in 0..3 {
                    let head = {
                        let g = circ::cs();
                        let mut head: Rc<Tiny> = Rc::null();
                        for _ in 0..400 {
                            let n = Rc::new(Tiny { next: AtomicRc::null() });
                            n.as_ref().unwrap().next.store(head, SeqCst, &g);
                            head = n;
                        }
                        head
                    };
                    drop(head);
                    churn(1);
                }
            }
            _ => {}
        }
        let g = circ::cs();
        let a0 = verif::local_state(&g).map_or(0, |s| s.announced);
        let serial = mon::guard_register(verif::local_id(&g));
        let mut snap = None;
        let mut wsnap = None;
        match holder {
            0 => {
                let s = s0.roots[0].load(SeqCst, &g);
                l_snap(xid, 0, 1);
                snap = Some(s);
            }
            1 | 3 => {
                let ws = s0.wroots[0].load(SeqCst, &g);
                obj(xid).wsnap.fetch_add(1, SeqCst);
                wsnap = Some(ws);
            }
            _ => {
                let ws = s0.wroots[0].load(SeqCst, &g);
                let s = ws.upgrade().expect("upgrade of a live object");
                l_snap(xid, 5, 1);
                snap = Some(s);
            }
        }
        mon::oplog(0, format!("(prelude {}) g = cs() at epoch {}; holder kind {} taken under g; then {} rounds of inner op {}", prelude, a0, holder, rounds, inner_op));
        let mut g1 = if matches!(inner_op, 1 | 2 | 3 | 7) { Some(circ::cs()) } else { None };
        set(1, 1);
        wait(2, 1);
        for round in 0..rounds {
            match inner_op {
                0 => {
                    let mut t = circ::cs();
                    t.reactivate();
                    drop(t);
                }
                1 => g1.as_mut().unwrap().reactivate(),
                2 => g1.as_mut().unwrap().reactivate_after(|| {}),
                3 => g1.as_mut().unwrap().reactivate_after(|| churn(1)),
                4 => {
                    let t = circ::cs();
                    t.flush();
                    drop(t);
                }
                5 => {
                    for _ in 0..70 {
                        let (n, _) = new_node(0);
                        drop(n);
                    }
                }
                6 => {
                    for _ in 0..70 {
                        let (n, _) = new_node(0);
                        n.finalize(&g);
                    }
                }
                7 => {
                    drop(g1.take());
                    g1 = Some(circ::cs());
                }
                8 => {
                    for _ in 0..70 {
                        let (n, nid) = new_node(0);
                        l_rc(nid, 1);
                        s0.roots[1].store(n, SeqCst, &g);
                        l_rc(nid, -1);
                    }
                }
                _ => {
                    g.flush();
                    for _ in 0..70 {
                        let (n, _) = new_node(0);
                        drop(n);
                    }
                }
            }
            let a = verif::local_state(&g).map_or(0, |s| s.announced);
            let ge = verif::global_epoch();
            mon::eval("guard-model");
            if a != a0 {
                mon::observer_violation(
                    "C16",
                    "C16|announced-epoch-moved-under-live-guard",
                    format!("scenario d14 (inner op {}): after round {} the participant announces {} instead of {} although the outer guard is live", inner_op, round + 1, a, a0),
                );
            }
            if ge < a0 || ge - a0 > 1 {
                mon::observer_violation(
                    "C14",
                    "C14|epoch-advanced-twice-within-critical-section",
                    format!("scenario d14 (inner op {}): the outer guard has been live since epoch {} but the global epoch is {}", inner_op, a0, ge),
                );
            }
            if let Some(n) = snap.as_ref().and_then(|s| s.as_ref()) {
                if !c01 {
                    n.check_live(Some(xid), "C02", if holder == 0 { "load" } else { "WeakSnapshot::upgrade" });
                }
            }
            set(3, round + 1);
            wait(4, round + 1);
        }
        if let Some(n) = snap.as_ref().and_then(|s| s.as_ref()) {
            if !c01 {
                n.check_live(Some(xid), "C02", if holder == 0 { "load" } else { "WeakSnapshot::upgrade" });
            }
        }
        if let Some(s) = snap.as_ref() {
            // still inside the critical section: the snapshot is turned into an owner, which must refer to a live object
            let r = s.counted();
            l_rc(xid, 1);
            r.as_ref().unwrap().check_live(Some(xid), "C01", "Snapshot::counted");
            let c = r.verif_counts().unwrap();
            if c.strong == 0 || c.destructed {
                mon::violation("C01", "C01|count-word-bad-under-rc|via=Snapshot::counted", format!("scenario d14: count word {:?} behind an Rc returned by Snapshot::counted", c));
            }
            l_rc(xid, -1);
            drop(r);
        }
        if let Some(ws) = wsnap.as_ref() {
            // the block must still be allocated: reading the counters is legal
            mon::eval("dealloc-ledger");
            if mon::id_of_addr(ws.verif_addr()) != Some(xid) {
                mon::violation("C03", "C03|dealloc-while-weak-snapshot", format!("scenario d14: block of obj {} freed while a WeakSnapshot under a live guard refers to it", xid));
            }
        }
        if snap.is_some() {
            l_snap(xid, if holder == 0 { 0 } else { 5 }, -1);
        }
        if wsnap.is_some() {
            obj(xid).wsnap.fetch_add(-1, SeqCst);
        }
        drop(g1);
        mon::guard_deregister(serial);
        drop(g);
        set(9, 1);
    });
    let s1 = sh.clone();
    let b1: Box<dyn FnOnce() + Send> = Box::new(move || {
        wait(1, 1);
        if holder == 1 || holder == 3 {
            let w = s1.wroots[0].swap(Weak::null(), SeqCst);
            obj(xid).weak.fetch_add(-1, SeqCst);
            drop(w);
            mon::oplog(1, "w = wroot0.swap(null); drop(w)  (last weak reference); then one collection round per reader round".into());
        } else {
            let old = s1.roots[0].swap(Rc::null(), SeqCst);
            drop(old);
            mon::oplog(1, "old = root0.swap(null); drop(old)  (last strong reference); then one collection round per reader round".into());
        }
        churn(1);
        set(2, 1);
        for round in 0..rounds {
            wait(3, round + 1);
            churn(2);
            set(4, round + 1);
        }
    });
    let _ = run("d14", J::obj().set("scenario", "d14").set("residue", residue).set("inner_op", inner_op).set("holder", holder).set("prelude", prelude), vec![], vec![b0, b1]);
    {
        let g = circ::cs();
        let w = sh.wroots[0].swap(Weak::null(), SeqCst);
        if !w.is_null() {
            obj(xid).weak.fetch_add(-1, SeqCst);
        }
        drop(w);
        drop(g);
    }
    finish(&sh);
    get(9) == 1
}

// ---------------------------------------------------------------------------------------------
// D16: guards taken inside a thread-local destructor that runs after the thread's participant handle was
// destroyed (the participant is kept alive by the guard alone) must protect like any other guard, whatever
// guard-level operation was done on them first. Real threads, no scheduler (the destructor runs outside any worker).
pub const D16_VARIANTS: usize = 9;
struct D16Obj {
    sh: Arc<Sh>,
    xid: u32,
    variant: usize,
}
thread_local! {
    static TLS_D16: std::cell::RefCell<Option<D16Obj>> = const { std::cell::RefCell::new(None) };
}
impl Drop for D16Obj {
    fn drop(&mut self) {
        let c01 = mon::check_prop() == "C01";
        let mut g = circ::cs();
        let mut extra = None;
        match self.variant {
            1 => g.reactivate(),
            2 => g.reactivate_after(|| {}),
            3 => {
                let g1 = circ::cs();
                drop(std::mem::replace(&mut g, g1));
            }
            4 => g.flush(),
            5 => g.reactivate_after(|| churn(1)),
            6 => extra = Some(circ::cs()),
            7 => {
                let t = circ::cs();
                drop(t);
            }
            8 => {
                let mut t = circ::cs();
                t.reactivate();
                t.reactivate_after(|| {});
                drop(t);
                g.reactivate();
            }
            _ => {}
        }
        let st = verif::local_state(&g);
        let a0 = st.as_ref().map_or(0, |s| s.announced);
        if st.as_ref().map_or(false, |s| s.handle_count == 0) {
            set(8, 1); // materialised: the participant has no handle left
        }
        let serial = mon::guard_register(verif::local_id(&g));
        let s = self.sh.roots[0].load(SeqCst, &g);
        if !s.is_null() {
            l_snap(self.xid, 0, 1);
        }
        set(1, 1);
        wait(2, 1);
        let st = verif::local_state(&g);
        // after the handle is gone every cs() registers a participant of its own: one guard per participant
        let live = 1;
        if let Some(st2) = extra.as_ref().and_then(|e| verif::local_state(e)) {
            if !st2.pinned || st2.guard_count != 1 {
                mon::observer_violation("C16", "C16|pinned-state-mismatch|tls-destructor", format!("variant {}: second guard's participant: pinned={} guard_count={}", self.variant, st2.pinned, st2.guard_count));
            }
        }
        mon::eval("guard-model");
        if let Some(st) = st {
            if !st.pinned || st.guard_count != live {
                mon::observer_violation("C16", "C16|pinned-state-mismatch|tls-destructor", format!("variant {}: {} live guard(s) but pinned={} guard_count={}", self.variant, live, st.pinned, st.guard_count));
            }
            if st.announced != a0 {
                mon::observer_violation("C16", "C16|announced-epoch-moved-under-live-guard", format!("scenario d16 variant {}: announced epoch moved from {} to {} under a live guard", self.variant, a0, st.announced));
            }
            let ge = verif::global_epoch();
            if ge < a0 || ge - a0 > 1 {
                mon::observer_violation("C14", "C14|epoch-advanced-twice-within-critical-section", format!("scenario d16 variant {}: the guard has been live since epoch {} but the global epoch is {}", self.variant, a0, ge));
            }
        }
        if let Some(n) = s.as_ref() {
            if !c01 {
                n.check_live(Some(self.xid), "C02", "load");
            }
            let r = s.counted();
            l_rc(self.xid, 1);
            r.as_ref().unwrap().check_live(Some(self.xid), "C01", "Snapshot::counted");
            l_rc(self.xid, -1);
            drop(r);
        }
        if !s.is_null() {
            l_snap(self.xid, 0, -1);
        }
        mon::guard_deregister(serial);
        drop(extra);
        drop(g);
        set(9, 1);
    }
}

pub fn d16(residue: usize, variant: usize) -> bool {
    reset(residue, 0);
    let (x, xid) = new_node(3);
    let sh = Arc::new(Sh { roots: vec![AtomicRc::null()], wroots: vec![] });
    {
        let g = circ::cs();
        l_rc(xid, 1);
        sh.roots[0].store(x, SeqCst, &g);
        l_rc(xid, -1);
    }
    mon::set_ctx("d16", J::obj().set("scenario", "d16").set("residue", residue).set("variant", variant), 2);
    let sh2 = sh.clone();
    let t = std::thread::spawn(move || {
        // the object is created before this thread's first use of the library: destroyed after its handle
        TLS_D16.with(|t| *t.borrow_mut() = Some(D16Obj { sh: sh2, xid, variant }));
        let g = circ::cs();
        drop(g);
    });
    wait(1, 1);
    if get(1) == 1 {
        let old = sh.roots[0].swap(Rc::null(), SeqCst);
        drop(old);
        churn(10);
    }
    set(2, 1);
    let _ = t.join();
    finish(&sh);
    get(9) == 1 && get(8) == 1
}

// ---------------------------------------------------------------------------------------------
// D15: a guard created inside a destructor that runs during a collection and kept beyond it (here: in a
// thread-local) counts like any other guard: the thread stays pinned until it is dropped.
pub struct Keeper {
    next: AtomicRc<Keeper>,
}
unsafe impl circ::RcObject for Keeper {
    fn pop_edges(&mut self, out: &mut Vec<Rc<Self>>) {
        out.push(self.next.take());
    }
}
thread_local! {
    static KEPT: std::cell::RefCell<Option<circ::Guard>> = const { std::cell::RefCell::new(None) };
}
impl Drop for Keeper {
    fn drop(&mut self) {
        if mon::IN_COLLECT.with(|c| c.get()) > 0 {
            set(1, 1);
        }
        KEPT.with(|k| *k.borrow_mut() = Some(circ::cs()));
    }
}

pub fn d15(residue: usize, extra_guards: usize, e2e: usize) -> bool {
    reset(residue, 0);
    let sh = Arc::new(Sh { roots: vec![AtomicRc::null()], wroots: vec![] });
    let s0 = sh.clone();
    let b0: Box<dyn FnOnce() + Send> = Box::new(move || {
        drop(Rc::new(Keeper { next: AtomicRc::null() }));
        for _ in 0..12 {
            // the collection that runs Keeper::drop happens inside the unpin of one of these rounds
            let outer: Vec<circ::Guard> = (0..extra_guards).map(|_| circ::cs()).collect();
            churn(1);
            drop(outer);
            if KEPT.with(|k| k.borrow().is_some()) {
                break;
            }
        }
        let kept = KEPT.with(|k| k.borrow_mut().take());
        let Some(kept) = kept else { return };
        if e2e >= 1 {
            // end to end: the kept guard is a critical section like any other - what is loaded under it outlives it
            // (C02/C13) and the global epoch moves at most one step while it lives (C14), whatever the thread itself
            // retires and collects in the meantime
            let a0 = match verif::local_state(&kept) {
                Some(st) if st.pinned => st.announced,
                _ => verif::global_epoch(),
            };
            let (x, xid) = new_node(3);
            l_rc(xid, 1);
            s0.roots[0].store(x, SeqCst, &kept);
            l_rc(xid, -1);
            let snap = s0.roots[0].load(SeqCst, &kept);
            l_snap(xid, 0, 1);
            let old = s0.roots[0].swap(Rc::null(), SeqCst);
            drop(old);
            let mut reported = false;
            for round in 0..8 {
                churn(1);
                mon::eval("guard-model");
                let ge = verif::global_epoch();
                if !reported && (ge < a0 || ge - a0 > 1) {
                    reported = true;
                    mon::observer_violation(
                        "C14",
                        "C14|epoch-advanced-twice-within-critical-section",
                        format!("scenario d15: a guard created in a destructor during collection has been live since epoch {} but the global epoch is {} (round {})", a0, ge, round),
                    );
                }
            }
            if let Some(n) = snap.as_ref() {
                n.check_live(Some(xid), "C02", "load");
            }
            l_snap(xid, 0, -1);
            set(7, 1);
        }
        if e2e == 2 {
            // exactly once across thread exit (C15): the guard is released like any other, the thread retires some more
            // objects and exits; `finish` on the surviving thread must see every one of them destructed
            drop(kept);
            for _ in 0..5 {
                let (n, _) = new_node(0);
                drop(n);
            }
            set(9, 1);
            return;
        }
        mon::eval("guard-model");
        let st = verif::local_state(&kept).unwrap();
        mon::oplog(0, format!("a guard created in a destructor during collection is still held: pinned={} guard_count={}", st.pinned, st.guard_count));
        if !st.pinned || st.guard_count != 1 {
            mon::observer_violation(
                "C16",
                "C16|pinned-state-mismatch|context=guard-kept-from-destructor-during-collection",
                format!("one live guard (created inside a destructor that ran during collection, kept in a thread-local) but pinned={} guard_count={}", st.pinned, st.guard_count),
            );
            std::mem::forget(kept);
            return;
        }
        drop(kept);
        let g = circ::cs();
        let st = verif::local_state(&g).unwrap();
        if !st.pinned || st.guard_count != 1 {
            mon::observer_violation("C16", "C16|pinned-state-mismatch|context=guard-kept-from-destructor-during-collection", format!("after dropping the kept guard and pinning again: pinned={} guard_count={}", st.pinned, st.guard_count));
        }
        drop(g);
        set(9, 1);
    });
    let _ = run("d15", J::obj().set("scenario", "d15").set("residue", residue).set("guards_around_the_round", extra_guards).set("end_to_end", e2e), vec![], vec![b0]);
    finish(&sh);
    get(9) == 1 && get(1) == 1 && (e2e == 0 || get(7) == 1)
}

pub struct ScenOut {
    pub execs: u64,
    pub materialised: u64,
    pub by: Counts,
    pub hashes: HashSet<u64>,
    pub samples: Vec<J>,
}

pub fn run_all(which: &str, shard: u64, nshards: u64, thorough: bool) -> ScenOut {
    let mut out = ScenOut { execs: 0, materialised: 0, by: Counts::default(), hashes: HashSet::new(), samples: Vec::new() };
    churn(2);
    let mut idx = 0u64;
    let mut one = |name: &str, params: Vec<usize>, f: &dyn Fn() -> bool, out: &mut ScenOut| {
        idx += 1;
        if idx % nshards != shard {
            return;
        }
        let ok = f();
        out.execs += 1;
        out.by.inc(&format!("{}-run", name));
        if ok {
            out.materialised += 1;
            out.by.inc(&format!("{}-materialised", name));
            let mut h = name.bytes().fold(0u64, |a, b| a * 131 + b as u64);
            for p in &params {
                h = crate::rng::mix(h, *p as u64);
            }
            out.hashes.insert(h);
        }
        if out.samples.len() < 3 && ok {
            let logs = mon::take_oplogs();
            out.samples.push(J::obj().set("scenario", name).set("params", J::A(params.iter().map(|p| J::U(*p as u64)).collect())).set(
                "oplogs",
                J::A(logs.iter().map(|l| J::A(l.iter().map(|s| J::S(s.clone())).collect())).collect()),
            ));
        }
    };
    let residues: Vec<usize> = (0..16).collect();
    if which == "c01" || which == "all" {
        for &r in &residues {
            for k in if thorough { vec![1, 2, 3, 4, 5, 6, 8, 12] } else { vec![3, 4, 6, 12] } {
                one("d4", vec![r, k], &|| d4(r, k), &mut out);
            }
        }
    }
    if which == "c05" {
        for &r in &residues {
            for age in if thorough { vec![0, 3, 5, 8, 13] } else { vec![3, 8] } {
                for variant in [0usize, 1, 2, 3, 4, 5] {
                    one("d5", vec![r, age, variant], &|| d5(r, age, variant), &mut out);
                }
            }
        }
    }
    if which == "c02" || which == "all" {
        for &r in &residues {
            for age in if thorough { vec![0, 1, 3, 4, 5, 8, 11, 13, 20] } else { vec![3, 8, 13] } {
                for variant in if thorough { vec![0usize, 1, 2, 3, 4, 5] } else { vec![0usize, 1, 2, 4] } {
                    one("d5", vec![r, age, variant], &|| d5(r, age, variant), &mut out);
                }
                one("d6", vec![r, age], &|| d6(r, age), &mut out);
            }
            for chain in if thorough { vec![700usize, 1000] } else { vec![1000] } {
                one("d7", vec![r, chain], &|| d7(r, chain), &mut out);
            }
        }
    }
    if which == "c12" {
        // the modular window going stale during a long disposal (stamps of true age 0 must never look old enough)
        for &r in &residues {
            for chain in if thorough { vec![700usize, 1000, 1400] } else { vec![1000] } {
                one("d7", vec![r, chain], &|| d7(r, chain), &mut out);
            }
        }
    }
    if which == "d13" {
        for &r in &[0usize, 3, 7, 12, 15] {
            for chain in [200usize, 400] {
                one("d13", vec![r, chain], &|| d13(r, chain), &mut out);
            }
        }
    }
    if which.starts_with("d14") {
        let rs: Vec<usize> = if thorough { (0..16).collect() } else { vec![0, 6, 14] };
        // d14s: strong holders (Snapshot), d14w: weak holder (WeakSnapshot), d14: all
        let holders: Vec<usize> = match which {
            "d14s" => vec![0, 2],
            "d14w" => vec![1, 3],
            "d14u" => vec![2],
            _ => vec![0, 1, 2, 3],
        };
        for &r in &rs {
            for op in 0..D14_OPS {
                for &holder in &holders {
                    for prelude in 0..3usize {
                        if prelude == 1 && !thorough && (r + op + holder) % 3 != 0 {
                            continue; // the expensive prelude on a third of the grid in the quick tier
                        }
                        one("d14", vec![r, op, holder, prelude], &|| d14(r, op, holder, prelude), &mut out);
                    }
                }
            }
        }
    }
    if which == "d16" {
        let rs: Vec<usize> = if thorough { (0..16).collect() } else { vec![0, 7, 15] };
        for &r in &rs {
            for v in 0..D16_VARIANTS {
                one("d16", vec![r, v], &|| d16(r, v), &mut out);
            }
        }
    }
    if which == "d15" {
        for &r in &[0usize, 5, 11] {
            for eg in 0..2usize {
                for e2e in 0..3usize {
                    one("d15", vec![r, eg, e2e], &|| d15(r, eg, e2e), &mut out);
                }
            }
        }
    }
    if which == "d10" {
        for &r in &[0usize, 5, 11] {
            one("d10", vec![r], &|| d10(r), &mut out);
        }
    }
    out.by.add("not-materialised-waits", NOT_MATERIALISED.load(SeqCst) as u64);
    out
}
