//! Minimal JSON value + writer (no external crates).

use std::collections::BTreeMap;
use std::fmt::Write;

#[derive(Clone, Debug)]
pub enum J {
    Null,
    B(bool),
    I(i64),
    U(u64),
    F(f64),
    S(String),
    A(Vec<J>),
    O(BTreeMap<String, J>),
}

impl J {
    pub fn obj() -> J {
        J::O(BTreeMap::new())
    }
    pub fn set(mut self, k: &str, v: impl Into<J>) -> J {
        if let J::O(m) = &mut self {
            m.insert(k.to_string(), v.into());
        }
        self
    }
    pub fn put(&mut self, k: &str, v: impl Into<J>) {
        if let J::O(m) = self {
            m.insert(k.to_string(), v.into());
        }
    }
    pub fn to_string(&self) -> String {
        let mut s = String::new();
        self.write(&mut s);
        s
    }
    fn write(&self, out: &mut String) {
        match self {
            J::Null => out.push_str("null"),
            J::B(b) => out.push_str(if *b { "true" } else { "false" }),
            J::I(i) => {
                let _ = write!(out, "{}", i);
            }
            J::U(u) => {
                let _ = write!(out, "{}", u);
            }
            J::F(f) => {
                if f.is_finite() {
                    let _ = write!(out, "{}", f);
                } else {
                    out.push_str("null");
                }
            }
            J::S(s) => esc(s, out),
            J::A(a) => {
                out.push('[');
                for (i, x) in a.iter().enumerate() {
                    if i > 0 {
                        out.push(',');
                    }
                    x.write(out);
                }
                out.push(']');
            }
            J::O(m) => {
                out.push('{');
                for (i, (k, v)) in m.iter().enumerate() {
                    if i > 0 {
                        out.push(',');
                    }
                    esc(k, out);
                    out.push(':');
                    v.write(out);
                }
                out.push('}');
            }
        }
    }
}

fn esc(s: &str, out: &mut String) {
    out.push('"');
    for c in s.chars() {
        match c {
            '"' => out.push_str("\\\""),
            '\\' => out.push_str("\\\\"),
            '\n' => out.push_str("\\n"),
            '\r' => out.push_str("\\r"),
            '\t' => out.push_str("\\t"),
            c if (c as u32) < 0x20 => {
                let _ = write!(out, "\\u{:04x}", c as u32);
            }
            c => out.push(c),
        }
    }
    out.push('"');
}

impl From<bool> for J {
    fn from(v: bool) -> J {
        J::B(v)
    }
}
impl From<i64> for J {
    fn from(v: i64) -> J {
        J::I(v)
    }
}
impl From<i32> for J {
    fn from(v: i32) -> J {
        J::I(v as i64)
    }
}
impl From<u64> for J {
    fn from(v: u64) -> J {
        J::U(v)
    }
}
impl From<u32> for J {
    fn from(v: u32) -> J {
        J::U(v as u64)
    }
}
impl From<usize> for J {
    fn from(v: usize) -> J {
        J::U(v as u64)
    }
}
impl From<f64> for J {
    fn from(v: f64) -> J {
        J::F(v)
    }
}
impl From<&str> for J {
    fn from(v: &str) -> J {
        J::S(v.to_string())
    }
}
impl From<String> for J {
    fn from(v: String) -> J {
        J::S(v)
    }
}
impl<T: Into<J>> From<Vec<T>> for J {
    fn from(v: Vec<T>) -> J {
        J::A(v.into_iter().map(|x| x.into()).collect())
    }
}
impl<T: Into<J> + Clone> From<&[T]> for J {
    fn from(v: &[T]) -> J {
        J::A(v.iter().cloned().map(|x| x.into()).collect())
    }
}

/// A counter map that serialises as an object.
#[derive(Default, Clone, Debug)]
pub struct Counts(pub BTreeMap<String, u64>);

impl Counts {
    pub fn inc(&mut self, k: &str) {
        *self.0.entry(k.to_string()).or_insert(0) += 1;
    }
    pub fn add(&mut self, k: &str, n: u64) {
        *self.0.entry(k.to_string()).or_insert(0) += n;
    }
    pub fn merge(&mut self, o: &Counts) {
        for (k, v) in &o.0 {
            *self.0.entry(k.clone()).or_insert(0) += v;
        }
    }
    pub fn get(&self, k: &str) -> u64 {
        self.0.get(k).copied().unwrap_or(0)
    }
}

impl From<Counts> for J {
    fn from(c: Counts) -> J {
        J::O(c.0.into_iter().map(|(k, v)| (k, J::U(v))).collect())
    }
}
impl From<&Counts> for J {
    fn from(c: &Counts) -> J {
        J::O(c.0.iter().map(|(k, v)| (k.clone(), J::U(*v))).collect())
    }
}
