//! The payload type used by the reference-counting workloads.

use crate::mon;
use circ::{AtomicRc, AtomicWeak, Rc, RcObject, Snapshot};
use std::sync::atomic::{AtomicU64, Ordering::*};

pub const LIVE: u64 = 0x11FE_C00C_1E5A_FE01;
pub const DEAD: u64 = 0xDEAD_DEAD_DEAD_0000;

pub struct VNode {
    pub id: u32,
    pub cookie: AtomicU64,
    pub val: u64,
    pub heap: Box<[u8]>,
    pub sum: u32,
    pub next: [AtomicRc<VNode>; 2],
    pub back: AtomicWeak<VNode>,
    pub pop_mask: u8,
}

fn checksum(b: &[u8]) -> u32 {
    let mut s = 0x811C9DC5u32;
    for &x in b {
        s = (s ^ x as u32).wrapping_mul(16777619);
    }
    s
}

impl VNode {
    pub fn new(id: u32, pop_mask: u8) -> Self {
        let n = 8 + (id as usize % 5) * 8;
        let heap: Box<[u8]> = (0..n).map(|i| (id as usize * 31 + i * 7) as u8).collect();
        let sum = checksum(&heap);
        VNode {
            id,
            cookie: AtomicU64::new(LIVE),
            val: id as u64 * 1000 + 7,
            heap,
            sum,
            next: [AtomicRc::null(), AtomicRc::null()],
            back: AtomicWeak::null(),
            pop_mask,
        }
    }

    /// M1: the liveness check made through a handle the API says is dereferenceable.
    /// `via`: how the handle was obtained (for the signature).
    pub fn check_live(&self, expect_id: Option<u32>, prop: &str, via: &str) {
        mon::eval("deref-cookie");
        // a dead object behind a handle returned by an upgrade refutes C05 and, the handle being an
        // Rc / a Snapshot like any other, C01 / C02 as well: attribute it to the property under check
        let cp = mon::check_prop();
        let prop = if prop == "C05" && (cp == "C01" || cp == "C02") { cp } else { prop };
        let c = self.cookie.load(SeqCst);
        if c != LIVE {
            mon::violation(
                prop,
                &format!("{}|deref-dead|via={}", prop, via),
                format!("deref through {} read cookie {:#x} (id field {}, expected {:?})", via, c, self.id, expect_id),
            );
        }
        if let Some(e) = expect_id {
            if self.id != e || self.val != e as u64 * 1000 + 7 {
                mon::violation(
                    prop,
                    &format!("{}|deref-wrong-object|via={}", prop, via),
                    format!("deref through {} read id {} val {}, expected id {}", via, self.id, self.val, e),
                );
            }
        }
        if checksum(&self.heap) != self.sum {
            mon::violation(
                prop,
                &format!("{}|deref-corrupt-heap|via={}", prop, via),
                format!("heap checksum mismatch on obj {}", self.id),
            );
        }
    }
}

unsafe impl RcObject for VNode {
    fn pop_edges(&mut self, out: &mut Vec<Rc<Self>>) {
        mon::on_pop_edges(self.id);
        for k in 0..2 {
            if self.pop_mask & (1 << k) != 0 {
                out.push(self.next[k].take());
            }
        }
    }
}

impl Drop for VNode {
    fn drop(&mut self) {
        mon::on_drop(self.id);
        let c = self.cookie.swap(DEAD | self.id as u64, SeqCst);
        if c != LIVE {
            mon::violation("C04", "C04|drop-on-dead-cookie", format!("obj {}: destructor found cookie {:#x}", self.id, c));
        }
        mon::on_drop_end(self.id);
    }
}

/// Allocates a node, registers it with the monitors and returns the handle.
pub fn new_node(pop_mask: u8) -> (Rc<VNode>, u32) {
    let id = mon::new_id();
    let rc = Rc::new(VNode::new(id, pop_mask));
    mon::register(id, rc.verif_addr(), rc.as_ref().unwrap() as *const VNode as usize);
    (rc, id)
}

pub fn snap_id(s: &Snapshot<'_, VNode>) -> Option<u32> {
    if s.is_null() {
        None
    } else {
        mon::id_of_addr(s.verif_addr())
    }
}
