//! The repository's own client data structures (Harris list map, DoubleLink queue; ported from
//! /repo/tests) as additional hostile workloads, with monitored payloads: every node access checks
//! the liveness cookie, destruction is counted exactly-once, histories are checked per key / FIFO,
//! and every execution ends with the "nothing live" audit.

use crate::hist::{self, LinResult, QCall, QOp};
use crate::json::{Counts, J};
use crate::mon::{self, obj};
use crate::rcrun::{churn, drain};
use crate::rng::{mix, Rng};
use crate::sched::{self, ExecCfg, Mode, Policy, Stall, ANY};
use circ::verif::site as S;
use circ::{AtomicRc, Guard, Rc, RcObject, Snapshot, Weak};
use std::cmp::Ordering::{Equal, Greater, Less};
use std::collections::{HashMap, HashSet};
use std::sync::atomic::{AtomicU64, Ordering::*};
use std::sync::{Arc, Mutex};
use std::time::Instant;

const LIVE: u64 = 0x5AFE_5AFE_0000_1111;

pub struct Tr {
    id: u32,
    cookie: AtomicU64,
}
impl Tr {
    fn new() -> Self {
        Tr { id: mon::new_id(), cookie: AtomicU64::new(LIVE) }
    }
    fn check(&self, via: &str) {
        mon::eval("deref-cookie");
        let c = self.cookie.load(SeqCst);
        if c != LIVE {
            let p = mon::check_prop();
            let p = if p == "C01" || p == "C04" { "C02" } else { p };
            mon::violation(p, &format!("{}|deref-dead|via={}", p, via), format!("node #{} read through a Snapshot under a live guard has cookie {:#x}", self.id, c));
        }
    }
    fn on_drop(&self) {
        mon::on_drop(self.id);
        let c = self.cookie.swap(0xDEAD, SeqCst);
        if c != LIVE {
            mon::violation("C04", "C04|drop-on-dead-cookie", format!("node #{}: destructor found cookie {:#x}", self.id, c));
        }
        mon::on_drop_end(self.id);
    }
}

// =============================================================================================
// Harris list (as in /repo/tests/harris_list.rs)

struct HNode {
    tr: Tr,
    next: AtomicRc<Self>,
    key: i32,
    value: u64,
}
unsafe impl RcObject for HNode {
    fn pop_edges(&mut self, out: &mut Vec<Rc<Self>>) {
        mon::on_pop_edges(self.tr.id);
        out.push(self.next.take())
    }
}
impl Drop for HNode {
    fn drop(&mut self) {
        self.tr.on_drop();
    }
}
fn hnode(key: i32, value: u64) -> Rc<HNode> {
    let r = Rc::new(HNode { tr: Tr::new(), next: AtomicRc::null(), key, value });
    mon::register(r.as_ref().unwrap().tr.id, r.verif_addr(), 0);
    r
}

struct ListMap {
    head: AtomicRc<HNode>,
}
struct Cursor<'g> {
    prev: Snapshot<'g, HNode>,
    curr: Snapshot<'g, HNode>,
}
fn nd<'g>(s: Snapshot<'g, HNode>) -> Option<&'g HNode> {
    let n = s.as_ref();
    if let Some(n) = n {
        n.tr.check("harris-traversal");
    }
    n
}
impl<'g> Cursor<'g> {
    fn new(head: &AtomicRc<HNode>, guard: &'g Guard) -> Self {
        let prev = head.load(Relaxed, guard);
        let curr = nd(prev).unwrap().next.load(Acquire, guard);
        Self { prev, curr }
    }
    fn find_harris(&mut self, key: &i32, guard: &'g Guard) -> Result<Option<&'g u64>, ()> {
        let mut prev_next = self.curr;
        let found = loop {
            let Some(curr_node) = nd(self.curr) else {
                break None;
            };
            let next = curr_node.next.load(Acquire, guard);
            if next.tag() != 0 {
                self.curr = next.with_tag(0);
                continue;
            }
            match curr_node.key.cmp(key) {
                Less => {
                    self.prev = self.curr;
                    self.curr = next;
                    prev_next = next;
                }
                Equal => break Some(&curr_node.value),
                Greater => break None,
            }
        };
        if prev_next.ptr_eq(self.curr) {
            return Ok(found);
        }
        nd(self.prev).unwrap().next.compare_exchange(prev_next, self.curr.counted(), Release, Relaxed, guard).map_err(|_| ())?;
        Ok(found)
    }
    fn insert(self, node: Rc<HNode>, guard: &Guard) -> Result<(), Rc<HNode>> {
        node.as_ref().unwrap().next.swap(self.curr.counted(), Relaxed);
        match nd(self.prev).unwrap().next.compare_exchange(self.curr, node, Release, Relaxed, guard) {
            Ok(_) => Ok(()),
            Err(e) => Err(e.desired),
        }
    }
    fn remove(self, guard: &Guard) -> Result<(), ()> {
        let curr_node = nd(self.curr).unwrap();
        let next = curr_node.next.load(Acquire, guard);
        let e = curr_node.next.compare_exchange_tag(next.with_tag(0), 1, AcqRel, Relaxed, guard);
        if e.is_err() {
            return Err(());
        }
        let _ = nd(self.prev).unwrap().next.compare_exchange(self.curr, next.counted(), Release, Relaxed, guard);
        Ok(())
    }
}
impl ListMap {
    fn new() -> Self {
        ListMap { head: AtomicRc::from(hnode(i32::MIN, 0)) }
    }
    fn get<'g>(&'g self, key: &i32, guard: &'g Guard) -> (Option<&'g u64>, Cursor<'g>) {
        loop {
            let mut cursor = Cursor::new(&self.head, guard);
            if let Ok(r) = cursor.find_harris(key, guard) {
                return (r, cursor);
            }
        }
    }
    fn insert<'g>(&'g self, key: i32, value: u64, guard: &'g Guard) -> Option<&'g u64> {
        let mut node = hnode(key, value);
        loop {
            let (found, cursor) = self.get(&key, guard);
            if found.is_some() {
                return found;
            }
            match cursor.insert(node, guard) {
                Err(n) => node = n,
                Ok(()) => return None,
            }
        }
    }
    fn remove<'g>(&'g self, key: &i32, guard: &'g Guard) -> Option<&'g u64> {
        loop {
            let (found, cursor) = self.get(key, guard);
            found?;
            match cursor.remove(guard) {
                Err(()) => continue,
                Ok(_) => return found,
            }
        }
    }
}

#[derive(Clone, Debug)]
struct SetOp {
    thread: u32,
    /// 0 insert, 1 remove, 2 get
    kind: u8,
    ok: bool,
    inv: u64,
    res: u64,
}

fn check_key(ops: &[SetOp], budget: &mut u64) -> Option<bool> {
    // one boolean register per key (initially absent), Wing-Gong with memoisation
    let n = ops.len();
    if n > 62 {
        return None;
    }
    fn step(present: bool, o: &SetOp) -> Option<bool> {
        match o.kind {
            0 => {
                if o.ok {
                    (!present).then_some(true)
                } else {
                    present.then_some(true)
                }
            }
            1 => {
                if o.ok {
                    present.then_some(false)
                } else {
                    (!present).then_some(false)
                }
            }
            _ => (o.ok == present).then_some(present),
        }
    }
    fn rec(ops: &[SetOp], done: u64, st: bool, seen: &mut HashSet<(u64, bool)>, budget: &mut u64) -> Option<bool> {
        let n = ops.len();
        if done == (1u64 << n) - 1 {
            return Some(true);
        }
        if !seen.insert((done, st)) {
            return Some(false);
        }
        if *budget == 0 {
            return None;
        }
        *budget -= 1;
        let mut min_res = u64::MAX;
        for i in 0..n {
            if done & (1 << i) == 0 && ops[i].res < min_res {
                min_res = ops[i].res;
            }
        }
        for i in 0..n {
            if done & (1 << i) != 0 || ops[i].inv > min_res {
                continue;
            }
            if let Some(ns) = step(st, &ops[i]) {
                match rec(ops, done | (1 << i), ns, seen, budget) {
                    Some(true) => return Some(true),
                    Some(false) => {}
                    None => return None,
                }
            }
        }
        Some(false)
    }
    let mut seen = HashSet::new();
    rec(ops, 0, false, &mut seen, budget)
}

// =============================================================================================
// DoubleLink queue (as in /repo/tests/doubly_linked_queue.rs)

struct QNode {
    tr: Tr,
    item: Option<u64>,
    prev: Weak<QNode>,
    next: AtomicRc<QNode>,
}
unsafe impl RcObject for QNode {
    fn pop_edges(&mut self, out: &mut Vec<Rc<Self>>) {
        mon::on_pop_edges(self.tr.id);
        out.push(self.next.take())
    }
}
impl Drop for QNode {
    fn drop(&mut self) {
        self.tr.on_drop();
    }
}
fn qn<'g>(s: Snapshot<'g, QNode>) -> Option<&'g QNode> {
    let n = s.as_ref();
    if let Some(n) = n {
        n.tr.check("dlqueue-access");
    }
    n
}
struct DLQueue {
    head: AtomicRc<QNode>,
    tail: AtomicRc<QNode>,
}
impl DLQueue {
    fn new() -> Self {
        let sentinel = Rc::new(QNode { tr: Tr::new(), item: None, prev: Weak::null(), next: AtomicRc::null() });
        mon::register(sentinel.as_ref().unwrap().tr.id, sentinel.verif_addr(), 0);
        Self { head: AtomicRc::from(sentinel.clone()), tail: AtomicRc::from(sentinel) }
    }
    fn enqueue(&self, item: u64, guard: &Guard) {
        let [mut node, sub] = Rc::new_many(QNode { tr: Tr::new(), item: Some(item), prev: Weak::null(), next: AtomicRc::null() });
        mon::register(node.as_ref().unwrap().tr.id, node.verif_addr(), 0);
        loop {
            let ltail = self.tail.load(Acquire, guard);
            unsafe { node.deref_mut() }.prev = ltail.downgrade().counted();
            if let Some(lprev) = qn(ltail).unwrap().prev.snapshot(guard).upgrade().and_then(qn) {
                if lprev.next.load(SeqCst, guard).is_null() {
                    lprev.next.store(ltail.counted(), Relaxed, guard);
                }
            }
            match self.tail.compare_exchange(ltail, node, SeqCst, SeqCst, guard) {
                Ok(_) => {
                    qn(ltail).unwrap().next.store(sub, Release, guard);
                    return;
                }
                Err(e) => node = e.desired,
            }
        }
    }
    fn dequeue(&self, guard: &Guard) -> Option<u64> {
        loop {
            let lhead = self.head.load(Acquire, guard);
            let lnext = qn(lhead).unwrap().next.load(Acquire, guard);
            if lnext.is_null() {
                return None;
            }
            if self.head.compare_exchange(lhead, lnext.counted(), SeqCst, SeqCst, guard).is_ok() {
                let n = qn(lnext).unwrap();
                return n.item;
            }
        }
    }
}

// =============================================================================================

pub struct DsCfg {
    pub which: String,
    pub mode: Mode,
    pub seed: u64,
    pub shard: u64,
    pub execs: u64,
    pub secs: f64,
}
#[derive(Default)]
pub struct DsStats {
    pub execs: u64,
    pub cut: u64,
    pub steps: u64,
    pub switches: u64,
    pub ops: u64,
    pub hashes: HashSet<u64>,
    pub nontrivial: HashSet<u64>,
    pub inconclusive: u64,
    pub samples: Vec<J>,
    pub counters: Counts,
}

fn final_audit(what: &str) {
    if drain(600).is_none() {
        mon::violation("C04", "C04|garbage-not-reclaimed-within-bound", format!("{}: deferrals still pending after 600 rounds", what));
    }
    mon::eval("audit-final");
    for j in 1..mon::n_objs() {
        let o = obj(j);
        if o.addr.load(SeqCst) == 0 {
            continue;
        }
        let (p, d, de) = (o.pop.load(SeqCst), o.drop.load(SeqCst), o.dealloc.load(SeqCst));
        if p != 1 || d != 1 || de != 1 {
            mon::violation(
                "C04",
                if d == 0 { "C04|leak-object-at-end" } else { "C04|leak-block-at-end" },
                format!("{}: node #{} pop_edges={} drop={} dealloc={} after the structure was dropped and collection ran", what, j, p, d, de),
            );
        }
    }
}

fn run_one(cfg: &DsCfg, eseed: u64, idx: u64, st: &mut DsStats) {
    let mut rng = Rng::new(eseed);
    sched::set_mode(Mode::Off);
    if drain(400).is_none() {
        mon::violation("C04", "C04|garbage-not-reclaimed-within-bound", "left-over garbage before an execution".into());
    }
    mon::reset_objs();
    churn(rng.below(16) as usize);
    let nthreads = rng.range(3, 6) as usize;
    let sites = [
        S::ARC_LOAD, S::ARC_CAS, S::ARC_CAS, S::ARC_CAS_TAG, S::ARC_STORE_SWAP, S::ARC_STORE_DEC, S::INCS_ADD1, S::INCS_ADD2, S::DECS_LOAD, S::DECS_CAS,
        S::DECS_DEFER, S::TD_LOAD, S::TD_CAS, S::COLLECT_POP, S::BAG_CALL, S::DISP_CHILD_CAS, S::DISP_SIBLING, S::IND_LOAD, S::INCW_ADD2, S::DECW_SUB, 120,
    ];
    let policy = match rng.below(10) {
        0..=4 => {
            let (num, den) = *rng.pick(&[(1u64, 3u64), (1, 8), (1, 25)]);
            Policy::Rand { num, den }
        }
        5..=8 => Policy::Pct { depth: rng.range(1, 5) as u32, est_len: rng.range(300, 5000) },
        _ => Policy::Coop,
    };
    let mut stalls = Vec::new();
    for _ in 0..*rng.pick(&[0usize, 1, 1, 2, 2]) {
        stalls.push(Stall {
            thread: if rng.chance(1, 2) { ANY } else { rng.below(nthreads as u64) as u32 },
            site: *rng.pick(&sites),
            kth: rng.range(1, 6) as u32,
            max_steps: *rng.pick(&[30u64, 100, 400, 1500, 6000]),
            epochs: *rng.pick(&[0u64, 1, 2, 3, 4, 6]),
            when: None,
            repeat: false,
            until: None,
        });
    }
    let desc = J::obj()
        .set("check", cfg.which.as_str())
        .set("mode", format!("{:?}", cfg.mode))
        .set("seed", cfg.seed)
        .set("shard", cfg.shard)
        .set("index", idx)
        .set("threads", nthreads)
        .set("policy", format!("{:?}", policy));
    mon::set_ctx(&cfg.which, desc.clone(), nthreads + 1);
    let mut bodies: Vec<Box<dyn FnOnce() + Send>> = Vec::new();
    let harris = cfg.which == "harris";
    let map = Arc::new(ListMap::new());
    let queue = Arc::new(DLQueue::new());
    let set_hist: Arc<Mutex<HashMap<i32, Vec<SetOp>>>> = Arc::new(Mutex::new(HashMap::new()));
    let q_hist: Arc<Mutex<Vec<QOp>>> = Arc::new(Mutex::new(Vec::new()));
    let nkeys = rng.range(2, 8) as i32;
    for t in 0..nthreads {
        let map = map.clone();
        let queue = queue.clone();
        let set_hist = set_hist.clone();
        let q_hist = q_hist.clone();
        let tseed = mix(eseed, 300 + t as u64);
        let nops = if harris { rng.range(6, 30) } else { rng.range(3, 9) };
        bodies.push(Box::new(move || {
            let mut rng = Rng::new(tseed);
            let mut seq = 0u64;
            let mut guard = circ::cs();
            for _ in 0..nops {
                sched::yield_hook(120);
                if rng.chance(2, 3) {
                    drop(guard);
                    guard = circ::cs();
                }
                if harris {
                    let key = rng.below(nkeys as u64) as i32;
                    let kind = rng.below(3) as u8;
                    let inv = mon::stamp();
                    let ok = match kind {
                        0 => map.insert(key, (key as u64) * 10 + 1, &guard).is_none(),
                        1 => {
                            let r = map.remove(&key, &guard);
                            if let Some(v) = r {
                                if *v != (key as u64) * 10 + 1 {
                                    mon::violation("C02", "C02|ds-value-corrupt", format!("removed key {} carries value {}", key, v));
                                }
                            }
                            r.is_some()
                        }
                        _ => {
                            let r = map.get(&key, &guard).0;
                            if let Some(v) = r {
                                if *v != (key as u64) * 10 + 1 {
                                    mon::violation("C02", "C02|ds-value-corrupt", format!("key {} carries value {}", key, v));
                                }
                            }
                            r.is_some()
                        }
                    };
                    let res = mon::stamp();
                    mon::oplog(t as u32, format!("{}({}) -> {}", ["insert", "remove", "get"][kind as usize], key, ok));
                    set_hist.lock().unwrap().entry(key).or_default().push(SetOp { thread: t as u32, kind, ok, inv, res });
                } else {
                    let inv = mon::stamp();
                    let (call, ret) = if rng.chance(1, 2) {
                        seq += 1;
                        let v = ((t as u64 + 1) << 32) | seq;
                        queue.enqueue(v, &guard);
                        (QCall::Push(v), None)
                    } else {
                        (QCall::Pop, queue.dequeue(&guard))
                    };
                    let res = mon::stamp();
                    mon::oplog(t as u32, format!("{:?} -> {:?}", call, ret));
                    q_hist.lock().unwrap().push(QOp { thread: t as u32, call, ret, inv, res });
                }
                sched::note(0xD5 + ((t as u64) << 12));
            }
            drop(guard);
            mon::flush_evals();
        }));
    }
    // a churner keeps the epoch moving
    let k = rng.range(3, 20);
    bodies.push(Box::new(move || {
        let mut left = k;
        let mut extra = 100u32;
        loop {
            if left > 0 {
                left -= 1;
            } else if extra > 0 && sched::stall_active() {
                extra -= 1;
            } else {
                break;
            }
            churn(1);
        }
    }));
    if cfg.mode == Mode::Parallel {
        let site = if rng.chance(2, 3) { Some(*rng.pick(&sites)) } else { None };
        sched::par_config(site, *rng.pick(&[50u32, 300, 1500]), rng.range(1, 4) as u32);
    }
    sched::set_mode(cfg.mode);
    let es = sched::run_exec(ExecCfg { seed: eseed, policy, stalls, step_cap: 600_000 }, bodies);
    sched::set_mode(Mode::Off);
    let p = mon::check_prop();
    let mut nops = 0u64;
    let mut overlap = false;
    if harris {
        let h = std::mem::take(&mut *set_hist.lock().unwrap());
        for (key, ops) in h {
            nops += ops.len() as u64;
            mon::eval("cell-lin");
            for i in 0..ops.len() {
                for j in i + 1..ops.len() {
                    if ops[i].thread != ops[j].thread && ops[i].inv < ops[j].res && ops[j].inv < ops[i].res {
                        overlap = true;
                    }
                }
            }
            let mut budget = 2_000_000u64;
            match check_key(&ops, &mut budget) {
                Some(true) => {}
                None => st.inconclusive += 1,
                Some(false) => {
                    let mut s = String::new();
                    let mut sorted = ops.clone();
                    sorted.sort_by_key(|o| o.inv);
                    for o in sorted {
                        s.push_str(&format!("[t{} {}({}) -> {} @{}..{}] ", o.thread, ["insert", "remove", "get"][o.kind as usize], key, o.ok, o.inv, o.res));
                    }
                    mon::violation(p, &format!("{}|ds-harris-history-not-linearizable", p), format!("key {}: {}", key, s));
                }
            }
        }
    } else {
        let mut ops = std::mem::take(&mut *q_hist.lock().unwrap());
        // drain the rest
        {
            let g = circ::cs();
            loop {
                let inv = mon::stamp();
                let r = queue.dequeue(&g);
                let res = mon::stamp();
                ops.push(QOp { thread: 99, call: QCall::Pop, ret: r, inv, res });
                if r.is_none() {
                    break;
                }
            }
        }
        nops = ops.len() as u64;
        mon::eval("queue-history");
        let pushed: HashSet<u64> = ops.iter().filter_map(|o| if let QCall::Push(v) = o.call { Some(v) } else { None }).collect();
        let mut seen = HashSet::new();
        for o in &ops {
            if let Some(v) = o.ret {
                if !pushed.contains(&v) || !seen.insert(v) {
                    mon::violation(p, &format!("{}|ds-queue-value-invented-or-duplicated", p), format!("value {:#x}", v));
                }
            }
        }
        if seen.len() != pushed.len() {
            mon::violation(p, &format!("{}|ds-queue-value-lost", p), format!("{} enqueued, {} dequeued after draining", pushed.len(), seen.len()));
        }
        for i in 0..ops.len() {
            for j in i + 1..ops.len() {
                if ops[i].thread != ops[j].thread && ops[i].inv < ops[j].res && ops[j].inv < ops[i].res {
                    overlap = true;
                }
            }
        }
        let mut budget = 3_000_000u64;
        match hist::check_queue(&[], &ops, &mut budget) {
            LinResult::Ok => {}
            LinResult::Inconclusive => st.inconclusive += 1,
            LinResult::Violation(s) => mon::violation(p, &format!("{}|ds-queue-history-not-linearizable", p), s),
        }
    }
    drop(map);
    drop(queue);
    final_audit(&cfg.which);
    st.execs += 1;
    mon::EXECS_DONE.fetch_add(1, SeqCst);
    st.cut += es.cut as u64;
    st.steps += es.steps;
    st.switches += es.switches;
    st.ops += nops;
    st.counters.add("nodes", mon::n_objs() as u64 - 1);
    let oplogs = mon::take_oplogs();
    let h = if cfg.mode == Mode::Serial { es.hash } else { mix(eseed, mon::now()) };
    st.hashes.insert(h);
    if overlap {
        mon::NONTRIVIAL_DONE.fetch_add(1, SeqCst);
        st.nontrivial.insert(h);
        if st.samples.len() < 2 {
            st.samples.push(desc.set("oplogs", J::A(oplogs.iter().map(|l| J::A(l.iter().take(30).map(|s| J::S(s.clone())).collect())).collect())));
        }
    }
}

pub fn run_batch(cfg: &DsCfg) -> DsStats {
    let mut st = DsStats::default();
    sched::set_mode(Mode::Off);
    churn(2);
    let t0 = Instant::now();
    let mut idx = 0u64;
    while idx < cfg.execs && t0.elapsed().as_secs_f64() < cfg.secs {
        let eseed = mix(mix(cfg.seed, cfg.shard ^ 0xD5), idx);
        run_one(cfg, eseed, idx, &mut st);
        idx += 1;
    }
    st
}

pub fn summary(cfg: &DsCfg, st: &DsStats, wall: f64) -> J {
    J::obj()
        .set("type", "summary")
        .set("profile", format!("ds-{}", cfg.which))
        .set("mode", format!("{:?}", cfg.mode))
        .set("execs", st.execs)
        .set("inconclusive_cut", st.cut + st.inconclusive)
        .set("steps", st.steps)
        .set("switches", st.switches)
        .set("ops", st.ops)
        .set("distinct", st.hashes.len())
        .set("nontrivial_hashes", J::A(st.nontrivial.iter().map(|h| J::S(format!("{:x}", h))).collect()))
        .set("counters", &st.counters)
        .set("events", mon::ev_counts_json())
        .set("monitor_evals", mon::evals_json())
        .set("samples", J::A(st.samples.clone()))
        .set("wall_s", wall)
}
