//! Execution control at circ's yield points.
//!
//! Mode S (serial): real OS threads, exactly one runnable at a time; at every yield point the
//! scheduler decides (seeded) who runs next, and can stall a thread at a named site.
//! Mode P (parallel): free-running threads with random delay injection at yield points.

use crate::rng::{mix, Rng};
use std::cell::Cell;
use std::sync::atomic::{AtomicU32, AtomicU64, AtomicU8, Ordering::*};
use std::sync::{Condvar, Mutex, MutexGuard};
use std::time::Duration;

pub const NONE: u32 = u32::MAX;
pub const ANY: u32 = u32::MAX - 1;
pub const MAXT: usize = 8;
pub const NSITE: usize = 128;

thread_local! {
    static WID: Cell<u32> = const { Cell::new(NONE) };
    static PRNG: Cell<u64> = const { Cell::new(0) };
    static SENT: Sentinel = const { Sentinel(Cell::new(NONE)) };
}

/// Marks the worker finished when the thread's TLS is torn down. It is initialised before circ's
/// participant handle, so (LIFO) it runs after the handle's destructor: `Local::finalize` at thread
/// exit is still scheduled like any other code.
struct Sentinel(Cell<u32>);
impl Drop for Sentinel {
    fn drop(&mut self) {
        let id = self.0.get();
        if id != NONE {
            WID.with(|w| w.set(NONE));
            finish(id);
        }
    }
}

#[derive(Clone, Copy, PartialEq, Eq, Debug)]
#[repr(u8)]
pub enum Mode {
    Off = 0,
    Serial = 1,
    Parallel = 2,
}
static MODE: AtomicU8 = AtomicU8::new(0);

pub fn mode() -> Mode {
    match MODE.load(Relaxed) {
        1 => Mode::Serial,
        2 => Mode::Parallel,
        _ => Mode::Off,
    }
}
pub fn set_mode(m: Mode) {
    MODE.store(m as u8, SeqCst);
}
pub fn wid() -> u32 {
    WID.with(|w| w.get())
}

#[derive(Clone, Debug)]
pub struct Stall {
    pub thread: u32,
    pub site: u16,
    pub kth: u32,
    pub max_steps: u64,
    pub epochs: u64,
    /// scripted scenarios: the rule fires at the first hit at which `when()` holds (kth ignored)
    pub when: Option<fn(u32) -> bool>,
    /// re-arm after firing (the rule may fire again at a later hit)
    pub repeat: bool,
    /// scripted scenarios: the stall is released as soon as `until()` holds
    pub until: Option<fn() -> bool>,
}

#[derive(Clone, Debug)]
pub enum Policy {
    /// Switch with probability num/den at every yield point.
    Rand { num: u64, den: u64 },
    /// PCT-style: random priorities, `depth` priority change points within `est_len` steps.
    Pct { depth: u32, est_len: u64 },
    /// Never preempt voluntarily (only stalls and thread ends switch).
    Coop,
}

#[derive(Clone, Copy, PartialEq, Eq, Debug)]
enum TS {
    NotStarted,
    Running,
    Finished,
}

#[derive(Clone, Debug)]
struct StallState {
    since_step: u64,
    since_epoch: u64,
    max_steps: u64,
    epochs: u64,
    site: u16,
    until: Option<fn() -> bool>,
}

pub struct ExecStats {
    pub steps: u64,
    pub switches: u64,
    pub hash: u64,
    pub cut: bool,
    pub site_hits: Vec<u64>,
    pub site_preempt: Vec<u64>,
    /// (site, steps stalled, epochs seen while stalled, reason)
    pub stalls_fired: Vec<(u16, u64, u64, &'static str)>,
}

struct Inner {
    n: usize,
    cur: u32,
    st: Vec<TS>,
    step: u64,
    switches: u64,
    rng: Rng,
    policy: Policy,
    prio: Vec<i64>,
    low: i64,
    change_points: Vec<u64>,
    rules: Vec<(Stall, u32, bool)>,
    stalled: Vec<Option<StallState>>,
    /// workers parked in `block_on` until their condition holds
    waiting: Vec<Option<(fn(usize, usize) -> bool, usize, usize)>>,
    hash: u64,
    cut: bool,
    drain: bool,
    step_cap: u64,
    site_hits: Vec<u64>,
    site_preempt: Vec<u64>,
    stalls_fired: Vec<(u16, u64, u64, &'static str)>,
    ring: Vec<(u32, u16)>,
    ring_pos: usize,
}

static SCHED: Mutex<Option<Inner>> = Mutex::new(None);
static CVS: [Condvar; MAXT] = [const { Condvar::new() }; MAXT];
static MAIN_CV: Condvar = Condvar::new();

/// Number of epoch advances of the default collector observed so far (fed by the event hook).
pub static EPOCH_ADV: AtomicU64 = AtomicU64::new(0);
/// Bit t is set while worker t is held at a stall rule (readable without the scheduler lock).
pub static STALLED_MASK: AtomicU32 = AtomicU32::new(0);
/// Optional per-step sampler, run under the scheduler lock at every yield point of a worker.
pub static SAMPLER: Mutex<Option<fn(u32, u16, u64)>> = Mutex::new(None);
static SAMPLER_ON: AtomicU8 = AtomicU8::new(0);

pub fn set_sampler(f: Option<fn(u32, u16, u64)>) {
    SAMPLER_ON.store(f.is_some() as u8, SeqCst);
    *SAMPLER.lock().unwrap() = f;
}

fn lock() -> MutexGuard<'static, Option<Inner>> {
    match SCHED.lock() {
        Ok(g) => g,
        Err(p) => p.into_inner(),
    }
}

pub struct ExecCfg {
    pub seed: u64,
    pub policy: Policy,
    pub stalls: Vec<Stall>,
    pub step_cap: u64,
}

// ---------------------------------------------------------------------------------------------
// Parallel-mode parameters
static PAR_TARGET_SITE: AtomicU32 = AtomicU32::new(u32::MAX);
static PAR_TARGET_US: AtomicU32 = AtomicU32::new(0);
static PAR_INTENSITY: AtomicU32 = AtomicU32::new(1);
pub static PAR_DELAYS: AtomicU64 = AtomicU64::new(0);

pub fn par_config(target_site: Option<u16>, target_us: u32, intensity: u32) {
    PAR_TARGET_SITE.store(target_site.map_or(u32::MAX, |s| s as u32), SeqCst);
    PAR_TARGET_US.store(target_us, SeqCst);
    PAR_INTENSITY.store(intensity, SeqCst);
}

/// The yield hook installed into circ.
pub fn yield_hook(site: u16) {
    match MODE.load(Relaxed) {
        1 => ser_yield(site),
        2 => par_yield(site),
        _ => {}
    }
}

fn par_yield(site: u16) {
    let s = PRNG.with(|p| p.get());
    if s == 0 {
        return;
    }
    let mut x = s;
    x ^= x << 13;
    x ^= x >> 7;
    x ^= x << 17;
    PRNG.with(|p| p.set(x));
    let r = (x >> 11) & 0xffff;
    let k = PAR_INTENSITY.load(Relaxed) as u64;
    if site as u32 == PAR_TARGET_SITE.load(Relaxed) && r < 8192 {
        let us = PAR_TARGET_US.load(Relaxed) as u64;
        PAR_DELAYS.fetch_add(1, Relaxed);
        std::thread::sleep(Duration::from_micros(1 + (x >> 40) % us.max(1)));
    } else if r < 16 * k {
        PAR_DELAYS.fetch_add(1, Relaxed);
        std::thread::sleep(Duration::from_micros(1 + (x >> 40) % 200));
    } else if r < 400 * k {
        std::thread::yield_now();
    } else if r < 2000 * k {
        for _ in 0..((x >> 40) % 300) {
            std::hint::spin_loop();
        }
    }
}

fn ser_yield(site: u16) {
    let me = WID.with(|w| w.get());
    if me == NONE {
        return;
    }
    let mut g = lock();
    let inn = match g.as_mut() {
        Some(i) => i,
        None => return,
    };
    inn.step += 1;
    let s = (site as usize).min(NSITE - 1);
    inn.site_hits[s] += 1;
    let rp = inn.ring_pos;
    inn.ring[rp % 4096] = (me, site);
    inn.ring_pos = rp + 1;
    if SAMPLER_ON.load(Relaxed) != 0 {
        if let Some(f) = *SAMPLER.lock().unwrap() {
            f(me, site, inn.step);
        }
    }
    if inn.drain {
        return;
    }
    if inn.step > inn.step_cap {
        inn.cut = true;
        inn.drain = true;
        // release every stall; the current thread runs to completion, then the others
        for t in 0..inn.n {
            inn.release(t, "cut");
        }
        return;
    }
    // stall rules
    let ep = EPOCH_ADV.load(Relaxed);
    for i in 0..inn.rules.len() {
        let (ref r, ref mut hits, ref mut fired) = inn.rules[i];
        if !*fired && r.site == site && (r.thread == ANY || r.thread == me) {
            *hits += 1;
            let fire = match r.when {
                Some(f) => f(*hits),
                None => *hits == r.kth,
            };
            if fire {
                *fired = !r.repeat;
                if inn.stalled[me as usize].is_none() {
                    inn.stalled[me as usize] = Some(StallState {
                        since_step: inn.step,
                        since_epoch: ep,
                        max_steps: r.max_steps,
                        epochs: r.epochs,
                        site,
                        until: r.until,
                    });
                    STALLED_MASK.fetch_or(1 << me, SeqCst);
                }
            }
        }
    }
    inn.release_due(ep);
    // priority change points
    if let Policy::Pct { .. } = inn.policy {
        if inn.change_points.contains(&inn.step) {
            inn.low -= 1;
            inn.prio[me as usize] = inn.low;
        }
    }
    let next = inn.choose(me, true);
    if next != me {
        inn.switches += 1;
        inn.site_preempt[s] += 1;
        inn.hash = mix(inn.hash, ((me as u64) << 32) | ((site as u64) << 8) | next as u64);
        inn.cur = next;
        CVS[next as usize].notify_one();
        while g.as_ref().map_or(false, |i| i.cur != me) {
            g = match CVS[me as usize].wait(g) {
                Ok(g) => g,
                Err(p) => p.into_inner(),
            };
        }
    }
}

impl Inner {
    fn release(&mut self, t: usize, why: &'static str) {
        if let Some(s) = self.stalled[t].take() {
            STALLED_MASK.fetch_and(!(1 << t), SeqCst);
            let ep = EPOCH_ADV.load(Relaxed);
            self.stalls_fired
                .push((s.site, self.step - s.since_step, ep - s.since_epoch, why));
        }
    }
    fn release_due(&mut self, ep: u64) {
        for t in 0..self.n {
            let due = match &self.stalled[t] {
                Some(s) => {
                    if s.until.map_or(false, |f| f()) {
                        Some("condition")
                    } else if self.step - s.since_step >= s.max_steps {
                        Some("steps")
                    } else if s.epochs > 0 && ep - s.since_epoch >= s.epochs {
                        Some("epochs")
                    } else {
                        None
                    }
                }
                None => None,
            };
            if let Some(w) = due {
                self.release(t, w);
            }
        }
    }
    fn eligible(&self, t: usize) -> bool {
        self.st[t] == TS::Running
            && self.stalled[t].is_none()
            && match self.waiting[t] {
                None => true,
                Some((f, a, b)) => f(a, b),
            }
    }
    /// Chooses who runs next. `me_running`: the caller is still runnable.
    fn choose(&mut self, me: u32, me_running: bool) -> u32 {
        let n = self.n;
        let mut others: Vec<u32> = (0..n as u32)
            .filter(|&t| t != me && self.eligible(t as usize))
            .collect();
        let me_ok = me_running && self.eligible(me as usize);
        if others.is_empty() {
            if me_ok {
                return me;
            }
            // nobody eligible: release the oldest stall among unfinished threads
            let mut best: Option<(usize, u64)> = None;
            for t in 0..n {
                if self.st[t] == TS::Running && (t as u32 != me || me_running) {
                    if let Some(s) = &self.stalled[t] {
                        if best.map_or(true, |(_, st)| s.since_step < st) {
                            best = Some((t, s.since_step));
                        }
                    }
                }
            }
            if let Some((t, _)) = best {
                self.release(t, "no-other-runnable");
                return t as u32;
            }
            // last resort: wake a parked worker (its block_on returns false)
            for t in 0..n {
                if self.st[t] == TS::Running && (t as u32 != me || me_running) && self.waiting[t].is_some() {
                    self.waiting[t] = None;
                    return t as u32;
                }
            }
            return NONE;
        }
        match self.policy {
            Policy::Rand { num, den } => {
                if me_ok && !self.rng.chance(num, den) {
                    me
                } else {
                    let i = self.rng.below(others.len() as u64) as usize;
                    others[i]
                }
            }
            Policy::Pct { .. } => {
                if me_ok {
                    others.push(me);
                }
                *others
                    .iter()
                    .max_by_key(|&&t| self.prio[t as usize])
                    .unwrap()
            }
            Policy::Coop => {
                if me_ok {
                    me
                } else {
                    let i = self.rng.below(others.len() as u64) as usize;
                    others[i]
                }
            }
        }
    }
}

/// Called by the sentinel when a worker thread's TLS teardown is complete.
fn finish(me: u32) {
    let mut g = lock();
    let inn = match g.as_mut() {
        Some(i) => i,
        None => return,
    };
    inn.st[me as usize] = TS::Finished;
    inn.stalled[me as usize] = None;
    STALLED_MASK.fetch_and(!(1 << me), SeqCst);
    inn.hash = mix(inn.hash, 0xF1 ^ ((me as u64) << 8));
    let next = inn.choose(me, false);
    inn.cur = next;
    if next == NONE {
        MAIN_CV.notify_all();
    } else {
        CVS[next as usize].notify_one();
    }
}

/// Worker prologue: registers the calling thread as worker `idx` and waits for its first turn.
pub fn enter(idx: u32, seed: u64) {
    // the sentinel must be created before circ's TLS handle
    SENT.with(|s| s.0.set(if mode() == Mode::Serial { idx } else { NONE }));
    match mode() {
        Mode::Serial => {
            WID.with(|w| w.set(idx));
            let mut g = lock();
            if let Some(inn) = g.as_mut() {
                inn.st[idx as usize] = TS::Running;
            }
            MAIN_CV.notify_all();
            while g.as_ref().map_or(false, |i| i.cur != idx) {
                g = match CVS[idx as usize].wait(g) {
                    Ok(g) => g,
                    Err(p) => p.into_inner(),
                };
            }
        }
        Mode::Parallel => {
            WID.with(|w| w.set(idx));
            PRNG.with(|p| p.set(mix(seed, idx as u64 + 1) | 1));
        }
        Mode::Off => {
            WID.with(|w| w.set(idx));
        }
    }
}

/// Runs `bodies` as worker threads under the configured mode and returns scheduling statistics.
pub fn run_exec(cfg: ExecCfg, bodies: Vec<Box<dyn FnOnce() + Send + 'static>>) -> ExecStats {
    let n = bodies.len();
    assert!(n <= MAXT);
    let m = mode();
    if m == Mode::Serial {
        let mut rng = Rng::new(cfg.seed ^ 0x5C4ED);
        let mut prio: Vec<i64> = (0..n as i64).map(|i| 1000 + i).collect();
        // shuffle priorities
        for i in (1..n).rev() {
            let j = rng.below(i as u64 + 1) as usize;
            prio.swap(i, j);
        }
        let mut change_points = Vec::new();
        if let Policy::Pct { depth, est_len } = cfg.policy {
            for _ in 0..depth {
                change_points.push(1 + rng.below(est_len.max(1)));
            }
        }
        let inner = Inner {
            n,
            cur: NONE,
            st: vec![TS::NotStarted; n],
            step: 0,
            switches: 0,
            rng,
            policy: cfg.policy.clone(),
            prio,
            low: 0,
            change_points,
            rules: cfg.stalls.iter().cloned().map(|s| (s, 0, false)).collect(),
            stalled: vec![None; n],
            waiting: vec![None; n],
            hash: 0xC1C0,
            cut: false,
            drain: false,
            step_cap: cfg.step_cap,
            site_hits: vec![0; NSITE],
            site_preempt: vec![0; NSITE],
            stalls_fired: Vec::new(),
            ring: vec![(0, 0); 4096],
            ring_pos: 0,
        };
        STALLED_MASK.store(0, SeqCst);
        *lock() = Some(inner);
    }
    let seed = cfg.seed;
    let mut handles = Vec::new();
    for (i, b) in bodies.into_iter().enumerate() {
        let h = std::thread::Builder::new()
            .name(format!("w{}", i))
            .spawn(move || {
                enter(i as u32, seed);
                b();
            })
            .expect("spawn");
        handles.push(h);
    }
    if m == Mode::Serial {
        let mut g = lock();
        // wait until every worker has entered
        loop {
            let all = g.as_ref().unwrap().st.iter().all(|s| *s != TS::NotStarted);
            if all {
                break;
            }
            g = match MAIN_CV.wait_timeout(g, Duration::from_secs(30)) {
                Ok((g, _)) => g,
                Err(p) => p.into_inner().0,
            };
        }
        {
            let inn = g.as_mut().unwrap();
            let first = inn.choose(NONE, false);
            inn.cur = first;
            if first != NONE {
                CVS[first as usize].notify_one();
            }
        }
        let t0 = std::time::Instant::now();
        loop {
            let done = g.as_ref().unwrap().st.iter().all(|s| *s == TS::Finished);
            if done {
                break;
            }
            if t0.elapsed() > Duration::from_secs(120) {
                let inn = g.as_ref().unwrap();
                eprintln!(
                    "HARNESS-WATCHDOG: execution stuck: cur={} st={:?} step={} stalled={:?}",
                    inn.cur, inn.st, inn.step, inn.stalled
                );
                crate::mon::harness_error("watchdog: serialized execution made no progress for 120 s");
            }
            g = match MAIN_CV.wait_timeout(g, Duration::from_secs(5)) {
                Ok((g, _)) => g,
                Err(p) => p.into_inner().0,
            };
        }
        drop(g);
    }
    for h in handles {
        let _ = h.join();
    }
    if m == Mode::Serial {
        let inn = lock().take().unwrap();
        ExecStats {
            steps: inn.step,
            switches: inn.switches,
            hash: inn.hash,
            cut: inn.cut,
            site_hits: inn.site_hits,
            site_preempt: inn.site_preempt,
            stalls_fired: inn.stalls_fired,
        }
    } else {
        ExecStats {
            steps: 0,
            switches: 0,
            hash: 0,
            cut: false,
            site_hits: vec![0; NSITE],
            site_preempt: vec![0; NSITE],
            stalls_fired: Vec::new(),
        }
    }
}

/// Mixes an interpreter-level event (an op boundary) into the schedule hash of the running
/// serialized execution.
pub fn note(x: u64) {
    if MODE.load(Relaxed) != 1 {
        return;
    }
    if WID.with(|w| w.get()) == NONE {
        return;
    }
    let mut g = lock();
    if let Some(inn) = g.as_mut() {
        inn.hash = mix(inn.hash, x);
    }
}

/// Current logical step of the serialized execution (0 outside).
pub fn step() -> u64 {
    if MODE.load(Relaxed) != 1 {
        return 0;
    }
    lock().as_ref().map_or(0, |i| i.step)
}

/// The last scheduling events (thread, site), oldest first.
pub fn recent(n: usize) -> Vec<(u32, u16)> {
    let g = lock();
    match g.as_ref() {
        Some(inn) => {
            let total = inn.ring_pos;
            let k = n.min(total).min(4096);
            (total - k..total).map(|i| inn.ring[i % 4096]).collect()
        }
        None => Vec::new(),
    }
}

/// True while some worker is held at a stall rule (serialized mode).
pub fn stall_active() -> bool {
    if MODE.load(Relaxed) != 1 {
        return false;
    }
    lock().as_ref().map_or(false, |i| i.stalled.iter().any(|s| s.is_some()))
}

/// Scripted scenarios: the calling worker gives up its turn until `cond()` holds.
/// Returns false if no other worker could run while the condition was still false.
pub fn block_until(cond: impl Fn() -> bool) -> bool {
    if MODE.load(Relaxed) != 1 {
        let t0 = std::time::Instant::now();
        while !cond() {
            std::thread::yield_now();
            if t0.elapsed() > Duration::from_secs(20) {
                return false;
            }
        }
        return true;
    }
    let me = WID.with(|w| w.get());
    if me == NONE {
        return cond();
    }
    let mut idle = 0u32;
    loop {
        if cond() {
            return true;
        }
        let mut g = lock();
        let inn = match g.as_mut() {
            Some(i) => i,
            None => return cond(),
        };
        inn.step += 1;
        let ep = EPOCH_ADV.load(Relaxed);
        inn.release_due(ep);
        // pick any other eligible worker
        let others: Vec<u32> = (0..inn.n as u32).filter(|&t| t != me && inn.eligible(t as usize)).collect();
        if others.is_empty() {
            // release the oldest stall of another worker, if any
            let mut best: Option<(usize, u64)> = None;
            for t in 0..inn.n {
                if t as u32 != me && inn.st[t] == TS::Running {
                    if let Some(s) = &inn.stalled[t] {
                        if best.map_or(true, |(_, st)| s.since_step < st) {
                            best = Some((t, s.since_step));
                        }
                    }
                }
            }
            match best {
                Some((t, _)) => {
                    inn.release(t, "no-other-runnable");
                    continue;
                }
                None => {
                    idle += 1;
                    if idle > 3 {
                        return cond();
                    }
                    continue;
                }
            }
        }
        let next = others[inn.rng.below(others.len() as u64) as usize];
        inn.switches += 1;
        inn.hash = mix(inn.hash, ((me as u64) << 32) | (0xB10C << 8) | next as u64);
        inn.cur = next;
        CVS[next as usize].notify_one();
        while g.as_ref().map_or(false, |i| i.cur != me) {
            g = match CVS[me as usize].wait(g) {
                Ok(g) => g,
                Err(p) => p.into_inner(),
            };
        }
    }
}

/// True if worker `t` is currently held at a stall rule.
pub fn is_stalled(t: u32) -> bool {
    STALLED_MASK.load(SeqCst) & (1 << t) != 0
}

/// Scripted scenarios: parks the calling worker until `f(a, b)` holds (evaluated by the scheduler,
/// so a parked worker costs no context switches). `f` may only read atomics.
/// Returns false if every other worker finished or is parked/stalled while it is still false.
pub fn block_on(f: fn(usize, usize) -> bool, a: usize, b: usize) -> bool {
    if MODE.load(Relaxed) != 1 {
        let t0 = std::time::Instant::now();
        while !f(a, b) {
            std::thread::yield_now();
            if t0.elapsed() > Duration::from_secs(20) {
                return false;
            }
        }
        return true;
    }
    let me = WID.with(|w| w.get());
    if me == NONE || f(a, b) {
        return f(a, b);
    }
    let mut g = lock();
    let inn = match g.as_mut() {
        Some(i) => i,
        None => return f(a, b),
    };
    inn.waiting[me as usize] = Some((f, a, b));
    loop {
        inn_step_release(&mut g);
        let inn = g.as_mut().unwrap();
        if inn.eligible(me as usize) {
            inn.waiting[me as usize] = None;
            return true;
        }
        let others: Vec<u32> = (0..inn.n as u32).filter(|&t| t != me && inn.eligible(t as usize)).collect();
        if others.is_empty() {
            // release the oldest stall of another worker, if any; otherwise give up
            let mut best: Option<(usize, u64)> = None;
            for t in 0..inn.n {
                if t as u32 != me && inn.st[t] == TS::Running {
                    if let Some(s) = &inn.stalled[t] {
                        if best.map_or(true, |(_, st)| s.since_step < st) {
                            best = Some((t, s.since_step));
                        }
                    }
                }
            }
            match best {
                Some((t, _)) => {
                    inn.release(t, "no-other-runnable");
                    continue;
                }
                None => {
                    inn.waiting[me as usize] = None;
                    return f(a, b);
                }
            }
        }
        let next = others[inn.rng.below(others.len() as u64) as usize];
        inn.switches += 1;
        inn.hash = mix(inn.hash, ((me as u64) << 32) | (0xB10C << 8) | next as u64);
        inn.cur = next;
        CVS[next as usize].notify_one();
        while g.as_ref().map_or(false, |i| i.cur != me) {
            g = match CVS[me as usize].wait(g) {
                Ok(g) => g,
                Err(p) => p.into_inner(),
            };
        }
    }
}

fn inn_step_release(g: &mut MutexGuard<'static, Option<Inner>>) {
    if let Some(inn) = g.as_mut() {
        inn.step += 1;
        let ep = EPOCH_ADV.load(Relaxed);
        inn.release_due(ep);
    }
}
