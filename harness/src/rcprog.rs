//! Random programs over the public reference-counting API on a small hostile heap, with the
//! ownership ledger (M2), liveness checks (M1), boundary checks and history recording (M5).

use crate::hist::{CellCall, CellOp, CellRet, Val};
use crate::mon::{self, obj};
use crate::node::{new_node, VNode};
use crate::rng::Rng;
use crate::sched;
use circ::{AtomicRc, AtomicWeak, Guard, NewRcIter, Rc, Snapshot, Weak, WeakSnapshot};
use std::sync::atomic::{AtomicBool, AtomicU64, Ordering::*};
use std::sync::{Arc, Mutex};

#[derive(Clone, Copy, Debug, PartialEq, Eq, Hash)]
pub enum K {
    New,
    NewMany,
    NewIter,
    IterNext,
    IterDrop,
    IterAbort,
    Clone,
    DropRc,
    Finalize,
    Store,
    Swap,
    Cas,
    CasWeak,
    CasTag,
    Load,
    RcSnapshot,
    Counted,
    Downgrade,
    WeakMany,
    WeakClone,
    WeakDrop,
    Upgrade,
    WeakSnap,
    SnapDowngrade,
    WsCounted,
    WsUpgrade,
    WStore,
    WSwap,
    WCas,
    WCasTag,
    WLoad,
    WithTag,
    Pin,
    Unpin,
    Reactivate,
    ReactivateAfter,
    Flush,
    Churn,
    Deref,
    LinkChain,
    Restamp,
    WRestamp,
    LocalCell,
    LocalWCell,
    Convert,
}

pub struct Role {
    pub name: &'static str,
    pub weights: Vec<(K, u32)>,
    pub ops: (u32, u32),
}

pub struct Profile {
    pub name: &'static str,
    pub weights: Vec<(K, u32)>,
    /// if non-empty, thread t runs role `t % roles.len()` instead of the common weights
    pub roles: Vec<Role>,
    pub threads: (u32, u32),
    pub ops: (u32, u32),
    pub nroots: usize,
    pub nwroots: usize,
    pub stall_sites: Vec<u16>,
    pub record_cells: bool,
    pub record_wcells: bool,
    /// probability (in 1/16) that a root is pre-filled with a small structure
    pub prefill: u32,
    /// chain length used by prefill / LinkChain (0 = small only)
    pub long_chain: u32,
    pub churn_thread: bool,
    pub tags: bool,
    /// choreographed executions: worker 0 releases a root and collects with a conditional stall
    /// once that release is due; the other workers start when it is stalled
    pub choreo: bool,
    /// choreographed executions of kind 1: instead of releasing a root, the controller prepares a
    /// destructed object whose weak count fell to zero (try_dealloc pending) and was revived from a
    /// WeakSnapshot and republished in weak root 0; worker 0 only collects
    pub choreo_weak_revive: bool,
    /// no weak handles are created during prefill (objects start without the WEAKED flag)
    pub no_pool: bool,
}

pub struct Shared {
    pub roots: Vec<AtomicRc<VNode>>,
    pub wroots: Vec<AtomicWeak<VNode>>,
    pub root_init: Vec<Val>,
    pub wroot_init: Vec<Val>,
    pub cell_hist: Mutex<Vec<CellOp>>,
    pub wcell_hist: Mutex<Vec<CellOp>>,
    pub flags: Flags,
    pub upgrades: [AtomicU64; 4],
}

#[derive(Default)]
pub struct Flags {
    pub inc_from_zero: AtomicBool,
    pub upgrade_race: AtomicBool,
    pub cas_epoch_differs: AtomicBool,
    pub wcas_epoch_differs: AtomicBool,
}

const NRC: usize = 4;
const NWK: usize = 3;
const NSN: usize = 4;
const NWS: usize = 3;
const NG: usize = 3;

struct SnapReg {
    s: Snapshot<'static, VNode>,
    id: Option<u32>,
    guard: usize,
    origin: u8,
}
struct WSnapReg {
    s: WeakSnapshot<'static, VNode>,
    id: Option<u32>,
    guard: usize,
}
struct GuardSlot {
    g: Option<Guard>,
    serial: u64,
    /// epoch the participant announced when this guard was taken (C16 observer)
    announced: usize,
}

#[derive(Clone, Copy, Debug)]
enum CellSel {
    Root(usize),
    RcField(usize, usize),
    SnapField(usize, usize),
}
#[derive(Clone, Copy, Debug)]
enum WCellSel {
    Root(usize),
    RcBack(usize),
    SnapBack(usize),
}

pub struct T {
    pub t: u32,
    rng: Rng,
    rc: Vec<Rc<VNode>>,
    rid: Vec<Option<u32>>,
    wk: Vec<Weak<VNode>>,
    wkid: Vec<Option<u32>>,
    guards: Vec<GuardSlot>,
    snaps: Vec<Option<SnapReg>>,
    wsnaps: Vec<Option<WSnapReg>>,
    iter: Option<(NewRcIter<VNode>, u32, u32)>,
    /// thread-private cells built through the From conversions (their content is an owner like an Rc / a Weak)
    lcell: Option<(AtomicRc<VNode>, Option<u32>)>,
    lwcell: Option<(AtomicWeak<VNode>, Option<u32>)>,
    sh: Arc<Shared>,
    prof: Arc<Profile>,
    role: Option<usize>,
    pub nops: u64,
    log: bool,
}

fn st<'a>(s: Snapshot<'a, VNode>) -> Snapshot<'static, VNode> {
    unsafe { std::mem::transmute(s) }
}
fn wst<'a>(s: WeakSnapshot<'a, VNode>) -> WeakSnapshot<'static, VNode> {
    unsafe { std::mem::transmute(s) }
}

fn l_add(c: &std::sync::atomic::AtomicI32, d: i32) {
    c.fetch_add(d, SeqCst);
}

impl T {
    pub fn new(t: u32, seed: u64, sh: Arc<Shared>, prof: Arc<Profile>, role: Option<usize>) -> T {
        T {
            role,
            t,
            rng: Rng::new(seed),
            rc: (0..NRC).map(|_| Rc::null()).collect(),
            rid: vec![None; NRC],
            wk: (0..NWK).map(|_| Weak::null()).collect(),
            wkid: vec![None; NWK],
            guards: (0..NG).map(|_| GuardSlot { g: None, serial: 0, announced: 0 }).collect(),
            snaps: (0..NSN).map(|_| None).collect(),
            wsnaps: (0..NWS).map(|_| None).collect(),
            iter: None,
            lcell: None,
            lwcell: None,
            sh,
            prof,
            nops: 0,
            log: true,
        }
    }

    fn lg(&self, s: String) {
        if self.log {
            mon::oplog(self.t, s);
        }
    }

    // ---- ledger helpers -----------------------------------------------------------------------
    fn touch(&self, id: Option<u32>) {
        if let Some(i) = id {
            obj(i).touched.fetch_or(1 << (self.t & 31), Relaxed);
        }
    }
    fn rc_add(&self, id: Option<u32>) {
        if let Some(i) = id {
            l_add(&obj(i).rc, 1);
            self.touch(id);
        }
    }
    fn rc_sub(&self, id: Option<u32>) {
        if let Some(i) = id {
            l_add(&obj(i).rc, -1);
        }
    }
    /// Structural invariant behind C03: the destruction path frees the block at once unless the
    /// WEAKED flag says that weak owners may exist, so a weak owner without the flag is unprotected.
    fn check_weaked(&self, w: &Weak<VNode>, via: &str) {
        if let Some(c) = w.verif_counts() {
            mon::eval("deref-cookie");
            if !c.weaked || c.weak == 0 {
                mon::violation(
                    "C03",
                    &format!("C03|weak-holder-unprotected|via={}", via),
                    format!("{} returned a Weak but the count word is {:?} (no WEAKED flag / zero weak count): the block would be freed at destruction", via, c),
                );
            }
        }
    }
    fn wk_add(&self, id: Option<u32>) {
        if let Some(i) = id {
            l_add(&obj(i).weak, 1);
            obj(i).had_weak.store(true, Relaxed);
            self.touch(id);
        }
    }
    fn wk_sub(&self, id: Option<u32>) {
        if let Some(i) = id {
            l_add(&obj(i).weak, -1);
        }
    }

    fn id_of_rc(&self, r: &Rc<VNode>, what: &str) -> Option<u32> {
        if r.is_null() {
            return None;
        }
        match mon::id_of_addr(r.verif_addr()) {
            Some(i) => Some(i),
            None => mon::violation(
                "C01",
                &format!("C01|rc-to-freed-block|via={}", what),
                format!("{} returned an Rc to a block that is not allocated", what),
            ),
        }
    }
    fn id_of_weak(&self, w: &Weak<VNode>, what: &str) -> Option<u32> {
        if w.is_null() {
            return None;
        }
        match mon::id_of_addr(w.verif_addr()) {
            Some(i) => Some(i),
            None => mon::violation(
                "C03",
                &format!("C03|weak-to-freed-block|via={}", what),
                format!("{} returned a Weak to a block that is not allocated", what),
            ),
        }
    }

    // ---- guards -------------------------------------------------------------------------------
    fn live_guards(&self) -> Vec<usize> {
        (0..NG).filter(|&i| self.guards[i].g.is_some()).collect()
    }
    fn gref(&self, slot: usize) -> &'static Guard {
        unsafe { &*(self.guards[slot].g.as_ref().unwrap() as *const Guard) }
    }
    fn pin(&mut self, slot: usize) {
        debug_assert!(self.guards[slot].g.is_none());
        let g = circ::cs();
        let serial = mon::guard_register(circ::verif::local_id(&g));
        let announced = circ::verif::local_state(&g).map_or(0, |s| s.announced);
        self.guards[slot] = GuardSlot { g: Some(g), serial, announced };
    }

    /// C16 / C14 observer: while a guard is live the thread is pinned, the guard count matches and
    /// the announced epoch is the one the guard was taken in and at most one behind the global one.
    fn check_guards(&self, after: &str) {
        let live = self.live_guards();
        if live.is_empty() {
            return;
        }
        mon::eval("guard-model");
        let st = match circ::verif::local_state(self.guards[live[0]].g.as_ref().unwrap()) {
            Some(s) => s,
            None => return,
        };
        if !st.pinned || st.guard_count != live.len() {
            mon::observer_violation(
                "C16",
                "C16|pinned-state-mismatch|rc-program",
                format!("after {}: {} live guards but pinned={} guard_count={}", after, live.len(), st.pinned, st.guard_count),
            );
        }
        for &s in &live {
            if self.guards[s].announced != st.announced {
                mon::observer_violation(
                    "C16",
                    "C16|announced-epoch-moved-under-live-guard",
                    format!("after {}: guard g{} was taken at epoch {} but the participant now announces {}", after, s, self.guards[s].announced, st.announced),
                );
            }
        }
        let g = circ::verif::global_epoch();
        // the epoch the participant pinned in is the one the oldest live guard was taken at
        for &s in &live {
            let taken = self.guards[s].announced;
            if g < taken || g - taken > 1 {
                mon::observer_violation(
                    "C14",
                    "C14|epoch-advanced-twice-within-critical-section",
                    format!("after {}: guard g{} has been live since epoch {} (the participant never unpinned) but the global epoch is {}", after, s, taken, g),
                );
            }
        }
        if g < st.announced || g - st.announced > 1 {
            mon::observer_violation(
                "C14",
                "C14|pinned-participant-sees-more-than-one-advance",
                format!("after {}: pinned at {} but the global epoch is {}", after, st.announced, g),
            );
        }
    }
    /// after a sole-guard reactivation the participant may announce a newer epoch
    fn reannounce(&mut self) {
        let live = self.live_guards();
        if live.len() == 1 {
            let a = circ::verif::local_state(self.guards[live[0]].g.as_ref().unwrap()).map_or(0, |s| s.announced);
            self.guards[live[0]].announced = a;
        }
    }
    fn guard_holds(&self, slot: usize) -> bool {
        self.snaps.iter().any(|x| x.as_ref().map_or(false, |s| s.guard == slot)) || self.wsnaps.iter().any(|x| x.as_ref().map_or(false, |s| s.guard == slot))
    }
    fn invalidate(&mut self, slot: usize) {
        for i in 0..NSN {
            if self.snaps[i].as_ref().map_or(false, |s| s.guard == slot) {
                let s = self.snaps[i].take().unwrap();
                if let Some(id) = s.id {
                    l_add(&obj(id).snap_by[s.origin as usize], -1);
                    l_add(&obj(id).snap, -1);
                }
            }
        }
        for i in 0..NWS {
            if self.wsnaps[i].as_ref().map_or(false, |s| s.guard == slot) {
                let s = self.wsnaps[i].take().unwrap();
                if let Some(id) = s.id {
                    l_add(&obj(id).wsnap, -1);
                }
            }
        }
    }
    fn unpin(&mut self, slot: usize) {
        self.invalidate(slot);
        mon::guard_deregister(self.guards[slot].serial);
        let g = self.guards[slot].g.take();
        drop(g);
    }
    fn some_guard(&mut self) -> usize {
        let l = self.live_guards();
        if l.is_empty() {
            self.pin(0);
            self.lg("pin g0 (implicit)".into());
            0
        } else {
            *self.rng.pick(&l)
        }
    }

    // ---- snapshot registers -------------------------------------------------------------------
    fn put_snap(&mut self, s: Snapshot<'_, VNode>, guard: usize, origin: u8, what: &str) -> usize {
        let id = if s.is_null() {
            None
        } else {
            match mon::id_of_addr(s.verif_addr()) {
                Some(i) => Some(i),
                None => mon::violation(
                    "C02",
                    &format!("C02|snapshot-to-freed-block|origin={}", mon::ORIGINS[origin as usize]),
                    format!("{} returned a Snapshot of a block that is not allocated", what),
                ),
            }
        };
        if let Some(i) = id {
            let o = obj(i);
            l_add(&o.snap, 1);
            l_add(&o.snap_by[origin as usize], 1);
            o.had_snap.store(true, Relaxed);
            self.touch(id);
        }
        let k = self.rng.below(NSN as u64) as usize;
        if let Some(old) = self.snaps[k].take() {
            if let Some(i) = old.id {
                l_add(&obj(i).snap_by[old.origin as usize], -1);
                l_add(&obj(i).snap, -1);
            }
        }
        self.snaps[k] = Some(SnapReg { s: st(s), id, guard, origin });
        k
    }
    fn put_wsnap(&mut self, s: WeakSnapshot<'_, VNode>, guard: usize, what: &str) -> usize {
        let id = if s.is_null() {
            None
        } else {
            match mon::id_of_addr(s.verif_addr()) {
                Some(i) => Some(i),
                None => mon::violation(
                    "C03",
                    &format!("C03|weak-snapshot-to-freed-block|via={}", what),
                    format!("{} returned a WeakSnapshot of a block that is not allocated", what),
                ),
            }
        };
        if let Some(i) = id {
            l_add(&obj(i).wsnap, 1);
            obj(i).had_weak.store(true, Relaxed);
            self.touch(id);
        }
        let k = self.rng.below(NWS as u64) as usize;
        if let Some(old) = self.wsnaps[k].take() {
            if let Some(i) = old.id {
                l_add(&obj(i).wsnap, -1);
            }
        }
        self.wsnaps[k] = Some(WSnapReg { s: wst(s), id, guard });
        k
    }
    fn live_snaps(&self, nonnull: bool) -> Vec<usize> {
        (0..NSN)
            .filter(|&i| self.snaps[i].as_ref().map_or(false, |s| !nonnull || s.id.is_some()))
            .collect()
    }
    fn live_wsnaps(&self) -> Vec<usize> {
        (0..NWS).filter(|&i| self.wsnaps[i].is_some()).collect()
    }
    fn nonnull_rcs(&self) -> Vec<usize> {
        (0..NRC).filter(|&i| self.rid[i].is_some()).collect()
    }
    fn nonnull_wks(&self) -> Vec<usize> {
        (0..NWK).filter(|&i| self.wkid[i].is_some()).collect()
    }

    /// Replaces register `i` (dropping what it held, with the ledger updated first).
    fn set_rc(&mut self, i: usize, r: Rc<VNode>, id: Option<u32>) {
        let old = std::mem::replace(&mut self.rc[i], r);
        let oid = std::mem::replace(&mut self.rid[i], id);
        self.rc_sub(oid);
        drop(old);
    }
    fn take_rc(&mut self, i: usize) -> (Rc<VNode>, Option<u32>) {
        let r = std::mem::replace(&mut self.rc[i], Rc::null());
        let id = self.rid[i].take();
        (r, id)
    }
    fn set_wk(&mut self, i: usize, w: Weak<VNode>, id: Option<u32>) {
        let old = std::mem::replace(&mut self.wk[i], w);
        let oid = std::mem::replace(&mut self.wkid[i], id);
        self.wk_sub(oid);
        drop(old);
    }
    fn take_wk(&mut self, i: usize) -> (Weak<VNode>, Option<u32>) {
        let w = std::mem::replace(&mut self.wk[i], Weak::null());
        let id = self.wkid[i].take();
        (w, id)
    }

    // ---- cells --------------------------------------------------------------------------------
    fn pick_cell(&mut self) -> CellSel {
        let r = self.rng.below(10);
        if r < 5 {
            return CellSel::Root(self.rng.below(self.sh.roots.len() as u64) as usize);
        }
        let rcs = self.nonnull_rcs();
        let sns = self.live_snaps(true);
        let k = self.rng.below(2) as usize;
        if r < 8 && !rcs.is_empty() {
            CellSel::RcField(*self.rng.pick(&rcs), k)
        } else if !sns.is_empty() {
            CellSel::SnapField(*self.rng.pick(&sns), k)
        } else if !rcs.is_empty() {
            CellSel::RcField(*self.rng.pick(&rcs), k)
        } else {
            CellSel::Root(self.rng.below(self.sh.roots.len() as u64) as usize)
        }
    }
    /// (cell, history key, id of the owning node or None for roots)
    fn cell(&self, c: CellSel) -> (&'static AtomicRc<VNode>, u64, Option<u32>) {
        unsafe {
            match c {
                CellSel::Root(i) => (&*(&self.sh.roots[i] as *const _), i as u64, None),
                CellSel::RcField(i, k) => {
                    let n = self.rc[i].as_ref().unwrap();
                    n.check_live(self.rid[i], "C01", "Rc");
                    let id = self.rid[i].unwrap();
                    (&*(&n.next[k] as *const _), (1 << 32) | ((id as u64) << 1) | k as u64, Some(id))
                }
                CellSel::SnapField(j, k) => {
                    let s = self.snaps[j].as_ref().unwrap();
                    let n = s.s.as_ref().unwrap();
                    n.check_live(s.id, "C02", mon::ORIGINS[s.origin as usize]);
                    let id = s.id.unwrap();
                    (&*(&n.next[k] as *const _), (1 << 32) | ((id as u64) << 1) | k as u64, Some(id))
                }
            }
        }
    }
    fn pick_wcell(&mut self) -> WCellSel {
        let r = self.rng.below(10);
        if r < 6 {
            return WCellSel::Root(self.rng.below(self.sh.wroots.len() as u64) as usize);
        }
        let rcs = self.nonnull_rcs();
        let sns = self.live_snaps(true);
        if r < 8 && !rcs.is_empty() {
            WCellSel::RcBack(*self.rng.pick(&rcs))
        } else if !sns.is_empty() {
            WCellSel::SnapBack(*self.rng.pick(&sns))
        } else {
            WCellSel::Root(self.rng.below(self.sh.wroots.len() as u64) as usize)
        }
    }
    fn wcell(&self, c: WCellSel) -> (&'static AtomicWeak<VNode>, u64) {
        unsafe {
            match c {
                WCellSel::Root(i) => (&*(&self.sh.wroots[i] as *const _), i as u64),
                WCellSel::RcBack(i) => {
                    let n = self.rc[i].as_ref().unwrap();
                    (&*(&n.back as *const _), (1 << 32) | self.rid[i].unwrap() as u64)
                }
                WCellSel::SnapBack(j) => {
                    let s = self.snaps[j].as_ref().unwrap();
                    let n = s.s.as_ref().unwrap();
                    (&*(&n.back as *const _), (1 << 32) | s.id.unwrap() as u64)
                }
            }
        }
    }
    fn rec_cell(&self, key: u64, call: CellCall, ret: CellRet, inv: u64) {
        if self.prof.record_cells {
            let res = mon::stamp();
            self.sh.cell_hist.lock().unwrap().push(CellOp { cell: key, thread: self.t, call, ret, inv, res });
        }
    }
    fn rec_wcell(&self, key: u64, call: CellCall, ret: CellRet, inv: u64) {
        if self.prof.record_wcells {
            let res = mon::stamp();
            self.sh.wcell_hist.lock().unwrap().push(CellOp { cell: key, thread: self.t, call, ret, inv, res });
        }
    }

    fn val(id: Option<u32>, tag: usize) -> Val {
        (id.unwrap_or(0), tag as u8)
    }

    /// Chooses an Rc register to pass as `desired`/stored value into a cell owned by `owner`
    /// (strong edges only go from lower to higher ids, which keeps the heap acyclic).
    fn pick_storable(&mut self, owner: Option<u32>) -> usize {
        let mut c: Vec<usize> = (0..NRC)
            .filter(|&i| match (self.rid[i], owner) {
                (None, _) => true,
                (Some(_), None) => true,
                (Some(x), Some(o)) => x > o,
            })
            .collect();
        if c.is_empty() {
            c.push(0);
            let (r, id) = self.take_rc(0);
            self.rc_sub(id);
            drop(r);
        }
        *self.rng.pick(&c)
    }

    fn note_inc_from_zero(&self, c: Option<circ::verif::Counts>, id: Option<u32>) {
        if let (Some(c), Some(id)) = (c, id) {
            if c.strong == 0 && !c.destructed {
                self.sh.flags.inc_from_zero.store(true, Relaxed);
                obj(id).inc_from_zero.store(true, Relaxed);
            }
        }
    }

    // ---- one step -----------------------------------------------------------------------------
    pub fn step(&mut self) {
        self.nops += 1;
        // op boundary: lets the scheduler switch between ops that contain no yield point
        sched::yield_hook(120);
        let prof = self.prof.clone();
        let table: &Vec<(K, u32)> = match self.role {
            Some(r) => &prof.roles[r].weights,
            None => &prof.weights,
        };
        let ws: Vec<u32> = table.iter().map(|x| x.1).collect();
        for _ in 0..12 {
            let k = table[self.rng.weighted(&ws)].0;
            if self.try_op(k) {
                sched::note(k as u64 + 0x100 * self.t as u64);
                self.check_guards("an op");
                return;
            }
        }
        self.try_op(K::Deref);
    }

    fn try_op(&mut self, k: K) -> bool {
        let tags = self.prof.tags;
        match k {
            K::New => {
                let i = self.rng.below(NRC as u64) as usize;
                let mask = *self.rng.pick(&[3u8, 3, 3, 1, 2, 0]);
                let (r, id) = new_node(mask);
                self.rc_add(Some(id));
                self.lg(format!("r{} = Rc::new(#{} pop_mask={})", i, id, mask));
                self.set_rc(i, r, Some(id));
                true
            }
            K::NewMany => {
                let id = mon::new_id();
                let n = self.rng.range(2, 3) as usize;
                let mut regs: Vec<usize> = (0..NRC).collect();
                for i in (1..regs.len()).rev() {
                    let j = self.rng.below(i as u64 + 1) as usize;
                    regs.swap(i, j);
                }
                if n == 2 {
                    let [a, b] = Rc::new_many::<2>(VNode::new(id, 3));
                    mon::register(id, a.verif_addr(), a.as_ref().unwrap() as *const VNode as usize);
                    l_add(&obj(id).rc, 2);
                    obj(id).bulkish.store(true, SeqCst);
                    self.touch(Some(id));
                    self.lg(format!("r{},r{} = Rc::new_many::<2>(#{})", regs[0], regs[1], id));
                    self.set_rc(regs[0], a, Some(id));
                    self.set_rc(regs[1], b, Some(id));
                } else {
                    let [a, b, c] = Rc::new_many::<3>(VNode::new(id, 3));
                    mon::register(id, a.verif_addr(), a.as_ref().unwrap() as *const VNode as usize);
                    l_add(&obj(id).rc, 3);
                    obj(id).bulkish.store(true, SeqCst);
                    self.touch(Some(id));
                    self.lg(format!("r{},r{},r{} = Rc::new_many::<3>(#{})", regs[0], regs[1], regs[2], id));
                    self.set_rc(regs[0], a, Some(id));
                    self.set_rc(regs[1], b, Some(id));
                    self.set_rc(regs[2], c, Some(id));
                }
                true
            }
            K::NewIter => {
                if self.iter.is_some() {
                    return false;
                }
                let id = mon::new_id();
                let n = self.rng.range(1, 4) as u32;
                let mut it = Rc::new_many_iter(VNode::new(id, 3), n as usize);
                // register through the first share
                let first = it.next().unwrap();
                mon::register(id, first.verif_addr(), first.as_ref().unwrap() as *const VNode as usize);
                l_add(&obj(id).rc, 1);
                l_add(&obj(id).bulk, n as i32 - 1);
                obj(id).bulkish.store(true, SeqCst);
                self.touch(Some(id));
                let i = self.rng.below(NRC as u64) as usize;
                self.lg(format!("it = Rc::new_many_iter(#{}, {}); r{} = it.next()", id, n, i));
                self.set_rc(i, first, Some(id));
                self.iter = Some((it, id, n - 1));
                true
            }
            K::IterNext => {
                let Some((mut it, id, rem)) = self.iter.take() else { return false };
                let i = self.rng.below(NRC as u64) as usize;
                let inv_counts = obj(id).rc.load(SeqCst);
                let _ = inv_counts;
                match it.next() {
                    Some(r) => {
                        if rem == 0 {
                            mon::violation("C10", "C10|iter-yielded-too-many", format!("iterator for #{} yielded more than announced", id));
                        }
                        if r.verif_addr() != obj(id).addr.load(SeqCst) {
                            mon::violation("C10", "C10|iter-wrong-object", format!("iterator for #{} yielded another object", id));
                        }
                        l_add(&obj(id).rc, 1);
                        l_add(&obj(id).bulk, -1);
                        self.lg(format!("r{} = it.next() (#{})", i, id));
                        self.set_rc(i, r, Some(id));
                        self.iter = Some((it, id, rem - 1));
                    }
                    None => {
                        if rem != 0 {
                            mon::violation("C10", "C10|iter-yielded-too-few", format!("iterator for #{} ended with {} shares outstanding", id, rem));
                        }
                        self.lg("it.next() = None".into());
                        self.iter = Some((it, id, 0));
                    }
                }
                true
            }
            K::IterDrop => {
                let Some((it, id, rem)) = self.iter.take() else { return false };
                l_add(&obj(id).bulk, -(rem as i32));
                self.lg(format!("drop(it) (#{} rem {})", id, rem));
                drop(it);
                true
            }
            K::IterAbort => {
                let Some((it, id, rem)) = self.iter.take() else { return false };
                let g = self.some_guard();
                l_add(&obj(id).bulk, -(rem as i32));
                self.lg(format!("it.abort(g{}) (#{} rem {})", g, id, rem));
                it.abort(self.gref(g));
                true
            }
            K::Clone => {
                let c = self.nonnull_rcs();
                if c.is_empty() {
                    return false;
                }
                let i = *self.rng.pick(&c);
                let j = self.rng.below(NRC as u64) as usize;
                let r = self.rc[i].clone();
                let id = self.rid[i];
                if r.verif_addr() != self.rc[i].verif_addr() || r.tag() != self.rc[i].tag() {
                    mon::violation("C01", "C01|clone-differs", "clone returned a different pointer".into());
                }
                self.rc_add(id);
                self.lg(format!("r{} = r{}.clone() (#{:?})", j, i, id));
                self.set_rc(j, r, id);
                true
            }
            K::DropRc => {
                let c = self.nonnull_rcs();
                if c.is_empty() {
                    return false;
                }
                let i = *self.rng.pick(&c);
                let (r, id) = self.take_rc(i);
                self.rc_sub(id);
                self.lg(format!("drop(r{}) (#{:?})", i, id));
                drop(r);
                true
            }
            K::Finalize => {
                let c = self.nonnull_rcs();
                if c.is_empty() {
                    return false;
                }
                let i = *self.rng.pick(&c);
                let g = self.some_guard();
                let (r, id) = self.take_rc(i);
                self.rc_sub(id);
                self.lg(format!("r{}.finalize(g{}) (#{:?})", i, g, id));
                r.finalize(self.gref(g));
                true
            }
            K::Store => {
                let cs = self.pick_cell();
                let g = self.some_guard();
                let (cell, key, owner) = self.cell(cs);
                let i = self.pick_storable(owner);
                let (r, id) = self.take_rc(i);
                let v = Self::val(id, r.tag());
                self.rc_sub(id);
                self.lg(format!("{:?}.store(r{} #{:?} tag {}, g{})", cs, i, id, v.1, g));
                let inv = mon::stamp();
                cell.store(r, SeqCst, self.gref(g));
                self.rec_cell(key, CellCall::Store(v), CellRet::Unit, inv);
                true
            }
            K::Swap => {
                let cs = self.pick_cell();
                let (cell, key, owner) = self.cell(cs);
                let i = self.pick_storable(owner);
                let (r, id) = self.take_rc(i);
                let v = Self::val(id, r.tag());
                self.rc_sub(id);
                let inv = mon::stamp();
                let old = cell.swap(r, SeqCst);
                let oid = self.id_of_rc(&old, "AtomicRc::swap");
                self.rc_add(oid);
                let ov = Self::val(oid, old.tag());
                self.rec_cell(key, CellCall::Swap(v), CellRet::Val(ov), inv);
                self.lg(format!("r{} = {:?}.swap(r{} #{:?} tag {}) -> #{:?} tag {}", i, cs, i, id, v.1, oid, ov.1));
                if let Some(o) = oid {
                    old.as_ref().unwrap().check_live(Some(o), "C01", "swap-result");
                }
                self.set_rc(i, old, oid);
                true
            }
            K::Cas | K::CasWeak => {
                let weak = k == K::CasWeak;
                let cs = self.pick_cell();
                let g = self.some_guard();
                let (cell, key, owner) = self.cell(cs);
                // expected: a live snapshot register of this guard, or null
                let sn: Vec<usize> = (0..NSN)
                    .filter(|&j| self.snaps[j].as_ref().map_or(false, |s| s.guard == g))
                    .collect();
                let (exp, eid, ehigh): (Snapshot<'static, VNode>, Option<u32>, usize) = if !sn.is_empty() && self.rng.chance(4, 5) {
                    let j = *self.rng.pick(&sn);
                    let s = self.snaps[j].as_ref().unwrap();
                    (s.s, s.id, s.s.verif_high_tag())
                } else {
                    (Snapshot::null(), None, 0)
                };
                let i = self.pick_storable(owner);
                let (r, id) = self.take_rc(i);
                let (daddr, dtag) = (r.verif_addr(), r.tag());
                let ev = Self::val(eid, exp.tag());
                let dv = Self::val(id, dtag);
                self.rc_sub(id);
                let pre = cell.verif_peek();
                if pre.0 == exp.verif_addr() && pre.1 == exp.tag() && pre.2 != ehigh && eid.is_some() {
                    self.sh.flags.cas_epoch_differs.store(true, Relaxed);
                }
                let inv = mon::stamp();
                let res = if weak {
                    cell.compare_exchange_weak(exp, r, SeqCst, SeqCst, self.gref(g))
                } else {
                    cell.compare_exchange(exp, r, SeqCst, SeqCst, self.gref(g))
                };
                mon::eval("cell-boundary");
                match res {
                    Ok(old) => {
                        let oid = self.id_of_rc(&old, "compare_exchange");
                        self.rc_add(oid);
                        let ov = Self::val(oid, old.tag());
                        self.rec_cell(key, CellCall::Cas(ev, dv, weak), CellRet::Ok(ov), inv);
                        if old.verif_addr() != exp.verif_addr() || old.tag() != exp.tag() {
                            mon::violation("C08", "C08|cas-ok-returned-other-than-expected", format!("CAS succeeded but returned #{:?} tag {} for expected #{:?} tag {}", oid, old.tag(), eid, exp.tag()));
                        }
                        self.lg(format!("r{} = {:?}.cas(exp #{:?} tag {}, r{} #{:?} tag {}, g{}) -> Ok(#{:?})", i, cs, eid, ev.1, i, id, dtag, g, oid));
                        self.set_rc(i, old, oid);
                    }
                    Err(e) => {
                        // desired comes back untouched
                        if e.desired.verif_addr() != daddr || e.desired.tag() != dtag {
                            mon::violation("C08", "C08|cas-err-desired-changed", "failed CAS returned a different `desired`".into());
                        }
                        self.rc_add(id);
                        let cur = e.current;
                        if !weak && cur.ptr_eq(exp) {
                            mon::violation("C08", "C08|cas-failed-though-equal", format!("strong CAS failed although current ptr_eq expected (#{:?} tag {})", eid, exp.tag()));
                        }
                        let slot = self.put_snap(cur, g, 1, "compare_exchange(current)");
                        let cid = self.snaps[slot].as_ref().unwrap().id;
                        let cv = Self::val(cid, cur.tag());
                        self.rec_cell(key, CellCall::Cas(ev, dv, weak), CellRet::Err(cv), inv);
                        self.lg(format!("{:?}.cas(exp #{:?} tag {}, r{} #{:?}, g{}) -> Err(cur #{:?} tag {} -> s{})", cs, eid, ev.1, i, id, g, cid, cv.1, slot));
                        self.set_rc(i, e.desired, id);
                    }
                }
                true
            }
            K::CasTag => {
                let cs = self.pick_cell();
                let g = self.some_guard();
                let (cell, key, _owner) = self.cell(cs);
                let sn: Vec<usize> = (0..NSN)
                    .filter(|&j| self.snaps[j].as_ref().map_or(false, |s| s.guard == g))
                    .collect();
                let (exp, eid): (Snapshot<'static, VNode>, Option<u32>) = if !sn.is_empty() && self.rng.chance(5, 6) {
                    let j = *self.rng.pick(&sn);
                    let s = self.snaps[j].as_ref().unwrap();
                    (s.s, s.id)
                } else {
                    (Snapshot::null(), None)
                };
                let tag = if tags { self.rng.below(16) as usize } else { self.rng.below(2) as usize };
                let ttag = (tag & 7) as u8;
                let ev = Self::val(eid, exp.tag());
                let inv = mon::stamp();
                let res = cell.compare_exchange_tag(exp, tag, SeqCst, SeqCst, self.gref(g));
                mon::eval("cell-boundary");
                match res {
                    Ok(cur) => {
                        if !cur.ptr_eq(exp) {
                            mon::violation("C08", "C08|cas_tag-ok-returned-other", "compare_exchange_tag succeeded but returned a pointer != expected".into());
                        }
                        let slot = self.put_snap(cur, g, 2, "compare_exchange_tag(ok)");
                        let cid = self.snaps[slot].as_ref().unwrap().id;
                        self.rec_cell(key, CellCall::CasTag(ev, ttag), CellRet::Ok(Self::val(cid, cur.tag())), inv);
                        self.lg(format!("{:?}.cas_tag(exp #{:?} tag {}, {}, g{}) -> Ok", cs, eid, ev.1, tag, g));
                    }
                    Err(e) => {
                        if e.current.ptr_eq(exp) {
                            mon::violation("C08", "C08|cas-failed-though-equal", "compare_exchange_tag failed although current ptr_eq expected".into());
                        }
                        if e.desired.verif_addr() != exp.verif_addr() || e.desired.tag() != ttag as usize {
                            mon::violation("C08", "C08|cas_tag-err-desired-wrong", "compare_exchange_tag returned a wrong `desired`".into());
                        }
                        let slot = self.put_snap(e.current, g, 1, "compare_exchange_tag(current)");
                        let cid = self.snaps[slot].as_ref().unwrap().id;
                        self.rec_cell(key, CellCall::CasTag(ev, ttag), CellRet::Err(Self::val(cid, e.current.tag())), inv);
                        self.lg(format!("{:?}.cas_tag(exp #{:?} tag {}, {}, g{}) -> Err(cur #{:?})", cs, eid, ev.1, tag, g, cid));
                    }
                }
                true
            }
            K::Load => {
                let cs = self.pick_cell();
                let g = self.some_guard();
                let (cell, key, _) = self.cell(cs);
                let inv = mon::stamp();
                let s = cell.load(SeqCst, self.gref(g));
                let slot = self.put_snap(s, g, 0, "AtomicRc::load");
                let sid = self.snaps[slot].as_ref().unwrap().id;
                self.rec_cell(key, CellCall::Load, CellRet::Val(Self::val(sid, s.tag())), inv);
                self.lg(format!("s{} = {:?}.load(g{}) -> #{:?} tag {}", slot, cs, g, sid, s.tag()));
                if let Some(n) = s.as_ref() {
                    n.check_live(sid, "C02", "load");
                }
                true
            }
            K::RcSnapshot => {
                let c = self.nonnull_rcs();
                if c.is_empty() {
                    return false;
                }
                let i = *self.rng.pick(&c);
                let g = self.some_guard();
                let s = self.rc[i].snapshot(self.gref(g));
                let slot = self.put_snap(s, g, 3, "Rc::snapshot");
                self.lg(format!("s{} = r{}.snapshot(g{}) (#{:?})", slot, i, g, self.rid[i]));
                true
            }
            K::Counted => {
                let c = self.live_snaps(false);
                if c.is_empty() {
                    return false;
                }
                let j = *self.rng.pick(&c);
                let (s, id) = {
                    let r = self.snaps[j].as_ref().unwrap();
                    (r.s, r.id)
                };
                self.note_inc_from_zero(s.verif_counts(), id);
                let r = s.counted();
                if r.verif_addr() != s.verif_addr() || r.tag() != s.tag() {
                    mon::violation("C01", "C01|counted-differs", "Snapshot::counted returned a different pointer".into());
                }
                self.rc_add(id);
                let i = self.rng.below(NRC as u64) as usize;
                self.lg(format!("r{} = s{}.counted() (#{:?})", i, j, id));
                if let Some(n) = r.as_ref() {
                    n.check_live(id, "C01", "counted");
                }
                self.set_rc(i, r, id);
                true
            }
            K::Downgrade => {
                let c = self.nonnull_rcs();
                if c.is_empty() {
                    return false;
                }
                let i = *self.rng.pick(&c);
                let w = self.rc[i].downgrade();
                let id = self.rid[i];
                if w.verif_addr() != self.rc[i].verif_addr() || w.tag() != self.rc[i].tag() {
                    mon::violation("C03", "C03|downgrade-differs", "Rc::downgrade returned a different pointer".into());
                }
                self.wk_add(id);
                self.check_weaked(&w, "Rc::downgrade");
                let j = self.rng.below(NWK as u64) as usize;
                self.lg(format!("w{} = r{}.downgrade() (#{:?})", j, i, id));
                self.set_wk(j, w, id);
                true
            }
            K::WeakMany => {
                let c = self.nonnull_rcs();
                if c.is_empty() {
                    return false;
                }
                let i = *self.rng.pick(&c);
                let id = self.rid[i];
                let before = self.rc[i].verif_counts().unwrap();
                if let Some(i) = id {
                    obj(i).bulkish.store(true, SeqCst);
                }
                let ws: [Weak<VNode>; 2] = self.rc[i].weak_many::<2>();
                mon::eval("bulk-counts");
                for w in &ws {
                    if w.is_null() || w.verif_addr() != self.rc[i].verif_addr() || w.tag() != self.rc[i].tag() {
                        mon::violation("C10", "C10|weak_many-wrong-pointer", format!("weak_many returned null={} for receiver #{:?}", w.is_null(), id));
                    }
                }
                let _ = before;
                let [a, b] = ws;
                self.wk_add(id);
                self.wk_add(id);
                self.check_weaked(&a, "Rc::weak_many");
                self.lg(format!("w0,w1 = r{}.weak_many::<2>() (#{:?})", i, id));
                self.set_wk(0, a, id);
                self.set_wk(1, b, id);
                true
            }
            K::WeakClone => {
                let c = self.nonnull_wks();
                if c.is_empty() {
                    return false;
                }
                let i = *self.rng.pick(&c);
                let w = self.wk[i].clone();
                let id = self.wkid[i];
                self.wk_add(id);
                self.check_weaked(&w, "Weak::clone");
                let j = self.rng.below(NWK as u64) as usize;
                self.lg(format!("w{} = w{}.clone() (#{:?})", j, i, id));
                self.set_wk(j, w, id);
                true
            }
            K::WeakDrop => {
                let c = self.nonnull_wks();
                if c.is_empty() {
                    return false;
                }
                let i = *self.rng.pick(&c);
                let (w, id) = self.take_wk(i);
                self.wk_sub(id);
                self.lg(format!("drop(w{}) (#{:?})", i, id));
                drop(w);
                true
            }
            K::Upgrade => {
                let i = self.rng.below(NWK as u64) as usize;
                let id = self.wkid[i];
                let tag = self.wk[i].tag();
                let holds_rc = id.map_or(false, |x| self.rid.iter().any(|r| *r == Some(x)));
                let pre = id.map(|x| UpgradePre::read(x));
                if let Some(c) = self.wk[i].verif_counts() {
                    self.note_inc_from_zero(Some(c), id);
                }
                let r = self.wk[i].upgrade();
                self.check_upgrade(id, pre, r.is_some(), holds_rc, "Weak::upgrade");
                match r {
                    Some(r) => {
                        if r.verif_addr() != self.wk[i].verif_addr() || r.tag() != tag {
                            mon::violation("C05", "C05|upgrade-wrong-pointer", "upgrade returned a different pointer or tag".into());
                        }
                        self.rc_add(id);
                        let j = self.rng.below(NRC as u64) as usize;
                        self.lg(format!("r{} = w{}.upgrade() -> Some(#{:?})", j, i, id));
                        if let Some(n) = r.as_ref() {
                            n.check_live(id, "C05", "Weak::upgrade");
                        }
                        self.set_rc(j, r, id);
                    }
                    None => {
                        if id.is_none() {
                            mon::violation("C05", "C05|null-upgrade-failed", "upgrade of a null Weak returned None".into());
                        }
                        self.lg(format!("w{}.upgrade() -> None (#{:?})", i, id));
                    }
                }
                true
            }
            K::WeakSnap => {
                let i = self.rng.below(NWK as u64) as usize;
                let g = self.some_guard();
                let s = self.wk[i].snapshot(self.gref(g));
                let slot = self.put_wsnap(s, g, "Weak::snapshot");
                self.lg(format!("ws{} = w{}.snapshot(g{}) (#{:?})", slot, i, g, self.wkid[i]));
                true
            }
            K::SnapDowngrade => {
                let c = self.live_snaps(false);
                if c.is_empty() {
                    return false;
                }
                let j = *self.rng.pick(&c);
                let (s, g) = {
                    let r = self.snaps[j].as_ref().unwrap();
                    (r.s, r.guard)
                };
                let ws = s.downgrade();
                let slot = self.put_wsnap(ws, g, "Snapshot::downgrade");
                self.lg(format!("ws{} = s{}.downgrade()", slot, j));
                true
            }
            K::WsCounted => {
                let c = self.live_wsnaps();
                if c.is_empty() {
                    return false;
                }
                let j = *self.rng.pick(&c);
                let (s, id) = {
                    let r = self.wsnaps[j].as_ref().unwrap();
                    (r.s, r.id)
                };
                let w = s.counted();
                if w.verif_addr() != s.verif_addr() || w.tag() != s.tag() {
                    mon::violation("C03", "C03|counted-differs", "WeakSnapshot::counted returned a different pointer".into());
                }
                self.wk_add(id);
                self.check_weaked(&w, "WeakSnapshot::counted");
                let i = self.rng.below(NWK as u64) as usize;
                self.lg(format!("w{} = ws{}.counted() (#{:?})", i, j, id));
                self.set_wk(i, w, id);
                true
            }
            K::WsUpgrade => {
                let c = self.live_wsnaps();
                if c.is_empty() {
                    return false;
                }
                let j = *self.rng.pick(&c);
                let (s, id, g) = {
                    let r = self.wsnaps[j].as_ref().unwrap();
                    (r.s, r.id, r.guard)
                };
                let holds_rc = id.map_or(false, |x| self.rid.iter().any(|r| *r == Some(x)));
                let pre = id.map(|x| UpgradePre::read(x));
                let cnt = s.verif_counts();
                let zero = cnt.map_or(false, |c| c.strong == 0);
                self.note_inc_from_zero(cnt, id);
                let r = s.upgrade();
                self.check_upgrade(id, pre, r.is_some(), holds_rc, "WeakSnapshot::upgrade");
                match r {
                    Some(sn) => {
                        if sn.verif_addr() != s.verif_addr() || sn.tag() != s.tag() {
                            mon::violation("C05", "C05|upgrade-wrong-pointer", "WeakSnapshot::upgrade returned a different pointer or tag".into());
                        }
                        let slot = self.put_snap(sn, g, if zero { 4 } else { 5 }, "WeakSnapshot::upgrade");
                        self.lg(format!("s{} = ws{}.upgrade() -> Some(#{:?}) strong_was_zero={}", slot, j, id, zero));
                        if let Some(n) = sn.as_ref() {
                            n.check_live(id, "C05", "WeakSnapshot::upgrade");
                        }
                    }
                    None => {
                        if id.is_none() {
                            mon::violation("C05", "C05|null-upgrade-failed", "upgrade of a null WeakSnapshot returned None".into());
                        }
                        self.lg(format!("ws{}.upgrade() -> None (#{:?})", j, id));
                    }
                }
                true
            }
            K::WStore => {
                let cs = self.pick_wcell();
                let g = self.some_guard();
                let (cell, key) = self.wcell(cs);
                let i = self.rng.below(NWK as u64) as usize;
                let (w, id) = self.take_wk(i);
                let v = Self::val(id, w.tag());
                self.wk_sub(id);
                self.lg(format!("{:?}.store(w{} #{:?} tag {}, g{})", cs, i, id, v.1, g));
                let inv = mon::stamp();
                cell.store(w, SeqCst, self.gref(g));
                self.rec_wcell(key, CellCall::Store(v), CellRet::Unit, inv);
                true
            }
            K::WSwap => {
                let cs = self.pick_wcell();
                let (cell, key) = self.wcell(cs);
                let i = self.rng.below(NWK as u64) as usize;
                let (w, id) = self.take_wk(i);
                let v = Self::val(id, w.tag());
                self.wk_sub(id);
                let inv = mon::stamp();
                let old = cell.swap(w, SeqCst);
                let oid = self.id_of_weak(&old, "AtomicWeak::swap");
                self.wk_add(oid);
                let ov = Self::val(oid, old.tag());
                self.rec_wcell(key, CellCall::Swap(v), CellRet::Val(ov), inv);
                self.lg(format!("w{} = {:?}.swap(w{} #{:?}) -> #{:?} tag {}", i, cs, i, id, oid, ov.1));
                self.set_wk(i, old, oid);
                true
            }
            K::WCas => {
                let weak = self.rng.chance(1, 4);
                let cs = self.pick_wcell();
                let g = self.some_guard();
                let (cell, key) = self.wcell(cs);
                let sn: Vec<usize> = (0..NWS)
                    .filter(|&j| self.wsnaps[j].as_ref().map_or(false, |s| s.guard == g))
                    .collect();
                let (exp, eid): (WeakSnapshot<'static, VNode>, Option<u32>) = if !sn.is_empty() && self.rng.chance(5, 6) {
                    let j = *self.rng.pick(&sn);
                    let s = self.wsnaps[j].as_ref().unwrap();
                    (s.s, s.id)
                } else {
                    (WeakSnapshot::null(), None)
                };
                let i = self.rng.below(NWK as u64) as usize;
                let (w, id) = self.take_wk(i);
                let (daddr, dtag) = (w.verif_addr(), w.tag());
                let ev = Self::val(eid, exp.tag());
                let dv = Self::val(id, dtag);
                self.wk_sub(id);
                let pre = cell.verif_peek();
                if pre.0 == exp.verif_addr() && pre.1 == exp.tag() && pre.2 != exp.verif_high_tag() && eid.is_some() {
                    self.sh.flags.wcas_epoch_differs.store(true, Relaxed);
                }
                let inv = mon::stamp();
                let res = if weak {
                    cell.compare_exchange_weak(exp, w, SeqCst, SeqCst, self.gref(g))
                } else {
                    cell.compare_exchange(exp, w, SeqCst, SeqCst, self.gref(g))
                };
                mon::eval("weak-cell-boundary");
                match res {
                    Ok(old) => {
                        let oid = self.id_of_weak(&old, "AtomicWeak::compare_exchange");
                        self.wk_add(oid);
                        self.rec_wcell(key, CellCall::Cas(ev, dv, weak), CellRet::Ok(Self::val(oid, old.tag())), inv);
                        if old.verif_addr() != exp.verif_addr() || old.tag() != exp.tag() {
                            mon::violation("C09", "C09|cas-ok-returned-other-than-expected", "AtomicWeak CAS succeeded but returned a pointer != expected".into());
                        }
                        self.lg(format!("w{} = {:?}.cas(exp #{:?} tag {}, w{} #{:?}, g{}) -> Ok(#{:?})", i, cs, eid, ev.1, i, id, g, oid));
                        self.set_wk(i, old, oid);
                    }
                    Err(e) => {
                        if e.desired.verif_addr() != daddr || e.desired.tag() != dtag {
                            mon::violation("C09", "C09|cas-err-desired-changed", "failed AtomicWeak CAS returned a different `desired`".into());
                        }
                        self.wk_add(id);
                        let cur = e.current;
                        if !weak && cur.ptr_eq(exp) {
                            mon::violation(
                                "C09",
                                "C09|cas-failed-though-equal",
                                format!("strong AtomicWeak CAS failed although current ptr_eq expected (#{:?} tag {}; stored stamp {} vs expected stamp {})", eid, exp.tag(), cur.verif_high_tag(), exp.verif_high_tag()),
                            );
                        }
                        let slot = self.put_wsnap(cur, g, "AtomicWeak::compare_exchange(current)");
                        let cid = self.wsnaps[slot].as_ref().unwrap().id;
                        self.rec_wcell(key, CellCall::Cas(ev, dv, weak), CellRet::Err(Self::val(cid, cur.tag())), inv);
                        self.lg(format!("{:?}.cas(exp #{:?} tag {}, w{} #{:?}, g{}) -> Err(cur #{:?} -> ws{})", cs, eid, ev.1, i, id, g, cid, slot));
                        self.set_wk(i, e.desired, id);
                    }
                }
                true
            }
            K::WCasTag => {
                let cs = self.pick_wcell();
                let g = self.some_guard();
                let (cell, key) = self.wcell(cs);
                let sn: Vec<usize> = (0..NWS)
                    .filter(|&j| self.wsnaps[j].as_ref().map_or(false, |s| s.guard == g))
                    .collect();
                let (exp, eid): (WeakSnapshot<'static, VNode>, Option<u32>) = if !sn.is_empty() && self.rng.chance(5, 6) {
                    let j = *self.rng.pick(&sn);
                    let s = self.wsnaps[j].as_ref().unwrap();
                    (s.s, s.id)
                } else {
                    (WeakSnapshot::null(), None)
                };
                let tag = if tags { self.rng.below(16) as usize } else { self.rng.below(2) as usize };
                let ttag = (tag & 7) as u8;
                let ev = Self::val(eid, exp.tag());
                let inv = mon::stamp();
                let res = cell.compare_exchange_tag(exp, tag, SeqCst, SeqCst, self.gref(g));
                mon::eval("weak-cell-boundary");
                match res {
                    Ok(cur) => {
                        if !cur.ptr_eq(exp) {
                            mon::violation("C09", "C09|cas_tag-ok-returned-other", "AtomicWeak compare_exchange_tag succeeded but returned a pointer != expected".into());
                        }
                        let slot = self.put_wsnap(cur, g, "AtomicWeak::compare_exchange_tag(ok)");
                        let cid = self.wsnaps[slot].as_ref().unwrap().id;
                        self.rec_wcell(key, CellCall::CasTag(ev, ttag), CellRet::Ok(Self::val(cid, cur.tag())), inv);
                        self.lg(format!("{:?}.wcas_tag(exp #{:?} tag {}, {}, g{}) -> Ok", cs, eid, ev.1, tag, g));
                    }
                    Err(e) => {
                        if e.current.ptr_eq(exp) {
                            mon::violation("C09", "C09|cas-failed-though-equal", "AtomicWeak compare_exchange_tag failed although current ptr_eq expected".into());
                        }
                        let slot = self.put_wsnap(e.current, g, "AtomicWeak::compare_exchange_tag(current)");
                        let cid = self.wsnaps[slot].as_ref().unwrap().id;
                        self.rec_wcell(key, CellCall::CasTag(ev, ttag), CellRet::Err(Self::val(cid, e.current.tag())), inv);
                        self.lg(format!("{:?}.wcas_tag(exp #{:?} tag {}, {}, g{}) -> Err(cur #{:?})", cs, eid, ev.1, tag, g, cid));
                    }
                }
                true
            }
            K::WLoad => {
                let cs = self.pick_wcell();
                let g = self.some_guard();
                let (cell, key) = self.wcell(cs);
                let inv = mon::stamp();
                let s = cell.load(SeqCst, self.gref(g));
                let slot = self.put_wsnap(s, g, "AtomicWeak::load");
                let sid = self.wsnaps[slot].as_ref().unwrap().id;
                self.rec_wcell(key, CellCall::Load, CellRet::Val(Self::val(sid, s.tag())), inv);
                self.lg(format!("ws{} = {:?}.load(g{}) -> #{:?} tag {}", slot, cs, g, sid, s.tag()));
                true
            }
            K::WithTag => {
                let tag = if tags { self.rng.below(16) as usize } else { self.rng.below(2) as usize };
                match self.rng.below(3) {
                    0 => {
                        let i = self.rng.below(NRC as u64) as usize;
                        let (r, id) = self.take_rc(i);
                        let a = r.verif_addr();
                        let r = r.with_tag(tag);
                        mon::eval("tag-model");
                        if r.verif_addr() != a || r.tag() != tag & 7 {
                            mon::violation("C11", "C11|with_tag-corrupts", format!("Rc::with_tag({}) gave addr change or tag {}", tag, r.tag()));
                        }
                        self.rc[i] = r;
                        self.rid[i] = id;
                        self.lg(format!("r{} = r{}.with_tag({})", i, i, tag));
                    }
                    1 => {
                        let i = self.rng.below(NWK as u64) as usize;
                        let (w, id) = self.take_wk(i);
                        let a = w.verif_addr();
                        let w = w.with_tag(tag);
                        mon::eval("tag-model");
                        if w.verif_addr() != a || w.tag() != tag & 7 {
                            mon::violation("C11", "C11|with_tag-corrupts", format!("Weak::with_tag({}) gave addr change or tag {}", tag, w.tag()));
                        }
                        self.wk[i] = w;
                        self.wkid[i] = id;
                        self.lg(format!("w{} = w{}.with_tag({})", i, i, tag));
                    }
                    _ => {
                        let c = self.live_snaps(false);
                        if c.is_empty() {
                            return false;
                        }
                        let j = *self.rng.pick(&c);
                        let r = self.snaps[j].as_mut().unwrap();
                        let a = r.s.verif_addr();
                        r.s = r.s.with_tag(tag);
                        if r.s.verif_addr() != a || r.s.tag() != tag & 7 {
                            mon::violation("C11", "C11|with_tag-corrupts", "Snapshot::with_tag changed the address".into());
                        }
                        self.lg(format!("s{} = s{}.with_tag({})", j, j, tag));
                    }
                }
                true
            }
            K::Pin => {
                let free: Vec<usize> = (0..NG).filter(|&i| self.guards[i].g.is_none()).collect();
                if free.is_empty() {
                    return false;
                }
                let s = *self.rng.pick(&free);
                self.pin(s);
                self.lg(format!("g{} = cs()", s));
                true
            }
            K::Unpin => {
                let l = self.live_guards();
                if l.is_empty() {
                    return false;
                }
                let s = *self.rng.pick(&l);
                self.lg(format!("drop(g{})", s));
                self.unpin(s);
                true
            }
            K::Reactivate => {
                let l = self.live_guards();
                if l.is_empty() {
                    return false;
                }
                // mostly re-activate a guard that protects nothing, so that what was loaded under the others stays in use
                let bare: Vec<usize> = l.iter().copied().filter(|&gs| !self.guard_holds(gs)).collect();
                let s = if !bare.is_empty() && self.rng.chance(3, 4) { *self.rng.pick(&bare) } else { *self.rng.pick(&l) };
                self.invalidate(s);
                mon::guard_deregister(self.guards[s].serial);
                self.lg(format!("g{}.reactivate()", s));
                self.guards[s].g.as_mut().unwrap().reactivate();
                self.guards[s].serial = mon::guard_register(circ::verif::local_id(self.guards[s].g.as_ref().unwrap()));
                self.reannounce();
                true
            }
            K::ReactivateAfter => {
                let l = self.live_guards();
                if l.is_empty() {
                    return false;
                }
                let bare: Vec<usize> = l.iter().copied().filter(|&gs| !self.guard_holds(gs)).collect();
                let s = if !bare.is_empty() && self.rng.chance(3, 4) { *self.rng.pick(&bare) } else { *self.rng.pick(&l) };
                self.invalidate(s);
                mon::guard_deregister(self.guards[s].serial);
                self.lg(format!("g{}.reactivate_after(churn)", s));
                let n = self.rng.below(3);
                self.guards[s].g.as_mut().unwrap().reactivate_after(|| {
                    for _ in 0..n {
                        let g = circ::cs();
                        g.flush();
                        drop(g);
                    }
                });
                self.guards[s].serial = mon::guard_register(circ::verif::local_id(self.guards[s].g.as_ref().unwrap()));
                self.reannounce();
                true
            }
            K::Flush => {
                let l = self.live_guards();
                if l.is_empty() {
                    return false;
                }
                let s = *self.rng.pick(&l);
                self.lg(format!("g{}.flush()", s));
                self.gref(s).flush();
                true
            }
            K::Churn => {
                let n = self.rng.range(1, 3);
                self.lg(format!("churn x{}", n));
                for _ in 0..n {
                    let g = circ::cs();
                    g.flush();
                    drop(g);
                }
                true
            }
            K::Deref => {
                self.deref_all();
                true
            }
            K::Restamp => {
                // re-store the current content of a cell (same pointer and tag, new internal stamp)
                let cs = self.pick_cell();
                let g = self.some_guard();
                let (cell, key, _) = self.cell(cs);
                let inv = mon::stamp();
                let s = cell.load(SeqCst, self.gref(g));
                let slot = self.put_snap(s, g, 0, "AtomicRc::load");
                let sid = self.snaps[slot].as_ref().unwrap().id;
                self.rec_cell(key, CellCall::Load, CellRet::Val(Self::val(sid, s.tag())), inv);
                let r = s.counted();
                self.rc_add(sid);
                let v = Self::val(sid, r.tag());
                self.rc_sub(sid);
                let inv = mon::stamp();
                cell.store(r, SeqCst, self.gref(g));
                self.rec_cell(key, CellCall::Store(v), CellRet::Unit, inv);
                self.lg(format!("restamp {:?}: s{} = load -> #{:?} tag {}; store(counted)", cs, slot, sid, v.1));
                true
            }
            K::WRestamp => {
                // a Weak that carries the stamp of a strong link goes into a weak cell
                let g = self.some_guard();
                let ri = self.rng.below(self.sh.roots.len() as u64) as usize;
                let sn = self.sh.roots[ri].load(SeqCst, self.gref(g));
                let sid = if sn.is_null() { None } else { mon::id_of_addr(sn.verif_addr()) };
                if sid.is_none() {
                    return false;
                }
                let w = sn.downgrade().counted();
                self.wk_add(sid);
                let cs = self.pick_wcell();
                let (cell, key) = self.wcell(cs);
                let v = Self::val(sid, w.tag());
                self.wk_sub(sid);
                self.lg(format!("{:?}.store(Root({}).load().downgrade().counted() #{:?} tag {} stamp {}, g{})", cs, ri, sid, v.1, w.verif_high_tag(), g));
                let inv = mon::stamp();
                cell.store(w, SeqCst, self.gref(g));
                self.rec_wcell(key, CellCall::Store(v), CellRet::Unit, inv);
                true
            }
            K::LocalCell => {
                // AtomicRc::from(Rc) / from(&Rc) / new / null / default, take(), Drop
                match self.lcell.take() {
                    None => {
                        let i = self.rng.below(NRC as u64) as usize;
                        let id = self.rid[i];
                        let (cell, how) = match self.rng.below(4) {
                            0 => {
                                // From<&Rc>: a new owner
                                let c = AtomicRc::from(&self.rc[i]);
                                self.rc_add(id);
                                (c, "AtomicRc::from(&r)")
                            }
                            1 => {
                                // From<Rc>: ownership moves into the cell (ledger unchanged: still counted as rc)
                                let (r, _) = self.take_rc(i);
                                (AtomicRc::from(r), "AtomicRc::from(r)")
                            }
                            2 => {
                                let (r, _) = self.take_rc(i);
                                self.rc_sub(id);
                                drop(r);
                                (AtomicRc::default(), "AtomicRc::default()")
                            }
                            _ => {
                                let (r, _) = self.take_rc(i);
                                self.rc_sub(id);
                                drop(r);
                                (AtomicRc::null(), "AtomicRc::null()")
                            }
                        };
                        let held = if how.contains("from") { id } else { None };
                        let peek = cell.verif_peek();
                        mon::eval("cell-boundary");
                        if peek.0 != held.map_or(0, |x| obj(x).addr.load(SeqCst)) {
                            mon::violation("C08", "C08|from-conversion-wrong-content", format!("{} holds address {:#x}, expected object #{:?}", how, peek.0, held));
                        }
                        self.lg(format!("lcell = {} (r{} #{:?})", how, i, id));
                        self.lcell = Some((cell, held));
                    }
                    Some((mut cell, held)) => {
                        if self.rng.chance(1, 2) {
                            // take(): the content comes back as an Rc, the cell stays null
                            let r = cell.take();
                            let rid = self.id_of_rc(&r, "AtomicRc::take");
                            if rid != held {
                                mon::violation("C08", "C08|take-returned-other", format!("take() returned #{:?}, the private cell held #{:?}", rid, held));
                            }
                            if cell.verif_peek().0 != 0 {
                                mon::violation("C08", "C08|take-left-content", "take() did not leave a null pointer".into());
                            }
                            let i = self.rng.below(NRC as u64) as usize;
                            self.lg(format!("r{} = lcell.take() (#{:?}); drop(lcell)", i, rid));
                            if let Some(n) = r.as_ref() {
                                n.check_live(rid, "C01", "take-result");
                            }
                            self.set_rc(i, r, rid);
                            drop(cell);
                        } else {
                            self.lg(format!("drop(lcell) (#{:?})", held));
                            self.rc_sub(held);
                            drop(cell);
                        }
                    }
                }
                true
            }
            K::LocalWCell => {
                match self.lwcell.take() {
                    None => {
                        let (cell, held, how) = match self.rng.below(3) {
                            0 => {
                                let i = self.rng.below(NRC as u64) as usize;
                                let c = AtomicWeak::from(&self.rc[i]);
                                self.wk_add(self.rid[i]);
                                (c, self.rid[i], "AtomicWeak::from(&rc)")
                            }
                            1 => {
                                let i = self.rng.below(NWK as u64) as usize;
                                let c = AtomicWeak::from(&self.wk[i]);
                                self.wk_add(self.wkid[i]);
                                (c, self.wkid[i], "AtomicWeak::from(&weak)")
                            }
                            _ => {
                                let i = self.rng.below(NWK as u64) as usize;
                                let (w, id) = self.take_wk(i);
                                (AtomicWeak::from(w), id, "AtomicWeak::from(weak)")
                            }
                        };
                        mon::eval("weak-cell-boundary");
                        if cell.verif_peek().0 != held.map_or(0, |x| obj(x).addr.load(SeqCst)) {
                            mon::violation("C09", "C09|from-conversion-wrong-content", format!("{} holds another address than object #{:?}", how, held));
                        }
                        self.lg(format!("lwcell = {} (#{:?})", how, held));
                        self.lwcell = Some((cell, held));
                    }
                    Some((mut cell, held)) => {
                        if self.rng.chance(1, 2) {
                            // get_mut(): exchange the content with a register
                            let i = self.rng.below(NWK as u64) as usize;
                            let (w, id) = self.take_wk(i);
                            let old = std::mem::replace(cell.get_mut(), w);
                            let oid = self.id_of_weak(&old, "AtomicWeak::get_mut");
                            if oid != held {
                                mon::violation("C09", "C09|get_mut-other-content", format!("get_mut() showed #{:?}, the private cell held #{:?}", oid, held));
                            }
                            self.lg(format!("w{} <-> *lwcell.get_mut() (#{:?} in, #{:?} out)", i, id, oid));
                            self.set_wk(i, old, oid);
                            self.lwcell = Some((cell, id));
                        } else {
                            self.lg(format!("drop(lwcell) (#{:?})", held));
                            self.wk_sub(held);
                            drop(cell);
                        }
                    }
                }
                true
            }
            K::Convert => {
                // From<Snapshot> for Rc / Weak / WeakSnapshot, From<WeakSnapshot> for Weak
                let c = self.live_snaps(false);
                if c.is_empty() {
                    return false;
                }
                let j = *self.rng.pick(&c);
                let (sn, id, g) = {
                    let r = self.snaps[j].as_ref().unwrap();
                    (r.s, r.id, r.guard)
                };
                match self.rng.below(4) {
                    0 => {
                        self.note_inc_from_zero(sn.verif_counts(), id);
                        let r: Rc<VNode> = Rc::from(sn);
                        if r.verif_addr() != sn.verif_addr() || r.tag() != sn.tag() {
                            mon::violation("C01", "C01|conversion-differs", "Rc::from(Snapshot) returned a different pointer".into());
                        }
                        self.rc_add(id);
                        let i = self.rng.below(NRC as u64) as usize;
                        self.lg(format!("r{} = Rc::from(s{}) (#{:?})", i, j, id));
                        self.set_rc(i, r, id);
                    }
                    1 => {
                        let w: Weak<VNode> = Weak::from(sn);
                        if w.verif_addr() != sn.verif_addr() || w.tag() != sn.tag() {
                            mon::violation("C03", "C03|conversion-differs", "Weak::from(Snapshot) returned a different pointer".into());
                        }
                        self.wk_add(id);
                        self.check_weaked(&w, "Weak::from(Snapshot)");
                        let i = self.rng.below(NWK as u64) as usize;
                        self.lg(format!("w{} = Weak::from(s{}) (#{:?})", i, j, id));
                        self.set_wk(i, w, id);
                    }
                    2 => {
                        let ws: WeakSnapshot<VNode> = WeakSnapshot::from(sn);
                        let slot = self.put_wsnap(ws, g, "WeakSnapshot::from(Snapshot)");
                        self.lg(format!("ws{} = WeakSnapshot::from(s{})", slot, j));
                    }
                    _ => {
                        let ws = sn.downgrade();
                        let w: Weak<VNode> = Weak::from(ws);
                        self.wk_add(id);
                        self.check_weaked(&w, "Weak::from(WeakSnapshot)");
                        let i = self.rng.below(NWK as u64) as usize;
                        self.lg(format!("w{} = Weak::from(s{}.downgrade()) (#{:?})", i, j, id));
                        self.set_wk(i, w, id);
                    }
                }
                true
            }
            K::LinkChain => {
                // build a private chain of fresh nodes and hang it under a fresh head in a register
                let len = if self.prof.long_chain > 0 && self.rng.chance(1, 4) {
                    self.rng.range(130, self.prof.long_chain as u64) as usize
                } else {
                    self.rng.range(2, 6) as usize
                };
                let g = self.some_guard();
                let mut ids = Vec::new();
                let mut nodes = Vec::new();
                for _ in 0..len {
                    let (r, id) = new_node(3);
                    ids.push(id);
                    nodes.push(r);
                }
                // ids ascending: node[k] -> node[k+1]
                let mut tail: Rc<VNode> = Rc::null();
                while let Some(n) = nodes.pop() {
                    if !tail.is_null() {
                        let k = (n.as_ref().unwrap().id % 2) as usize;
                        let key = (1u64 << 32) | ((n.as_ref().unwrap().id as u64) << 1) | k as u64;
                        let v = Self::val(mon::id_of_addr(tail.verif_addr()), tail.tag());
                        let inv = mon::stamp();
                        n.as_ref().unwrap().next[k].store(tail, SeqCst, self.gref(g));
                        self.rec_cell(key, CellCall::Store(v), CellRet::Unit, inv);
                    }
                    tail = n;
                }
                let i = self.rng.below(NRC as u64) as usize;
                self.rc_add(Some(ids[0]));
                self.lg(format!("r{} = chain of {} nodes #{}..#{}", i, len, ids[0], ids[len - 1]));
                self.set_rc(i, tail, Some(ids[0]));
                true
            }
        }
    }

    fn check_upgrade(&self, id: Option<u32>, pre: Option<UpgradePre>, ok: bool, holds_rc: bool, what: &str) {
        let (Some(id), Some(pre)) = (id, pre) else { return };
        mon::eval("upgrade-history");
        let o = obj(id);
        let ret = mon::stamp();
        self.sh.upgrades[ok as usize].fetch_add(1, Relaxed);
        if o.td.load(SeqCst) > 0 {
            self.sh.flags.upgrade_race.store(true, Relaxed);
            self.sh.upgrades[2].fetch_add(1, Relaxed);
        }
        if ok {
            if pre.dbegin != 0 {
                mon::observer_violation(
                    "C05",
                    &format!("C05|upgrade-succeeded-after-destruction-began|{}", what),
                    format!("{} on #{} returned a reference although its destruction had begun (stamp {}) before the call (stamp {}); drop_end={}", what, id, pre.dbegin, pre.inv, pre.drop_end),
                );
            }
            if pre.dset != 0 {
                mon::observer_violation(
                    "C05",
                    &format!("C05|upgrade-succeeded-after-destructed-flag|{}", what),
                    format!("{} on #{} succeeded although DESTRUCTED was set before the call", what, id),
                );
            }
            if pre.first_fail != 0 {
                mon::observer_violation(
                    "C05",
                    &format!("C05|upgrade-succeeded-after-earlier-failure|{}", what),
                    format!("{} on #{} succeeded although an upgrade that returned at stamp {} (before this call, stamp {}) had failed", what, id, pre.first_fail, pre.inv),
                );
            }
        } else {
            let _ = o.first_fail_upgrade_ret.compare_exchange(0, ret, SeqCst, SeqCst);
            if holds_rc {
                mon::observer_violation(
                    "C05",
                    &format!("C05|upgrade-failed-while-caller-holds-rc|{}", what),
                    format!("{} on #{} failed while the calling thread itself holds an Rc to it", what, id),
                );
            }
            if sched::mode() == sched::Mode::Serial && o.dset_stamp.load(SeqCst) == 0 && o.dbegin_stamp.load(SeqCst) == 0 {
                mon::observer_violation(
                    "C05",
                    &format!("C05|upgrade-failed-before-destruction|{}", what),
                    format!("{} on #{} failed although its destruction has not begun", what, id),
                );
            }
        }
    }

    pub fn deref_all(&mut self) {
        for i in 0..NRC {
            if let Some(id) = self.rid[i] {
                let n = self.rc[i].as_ref().unwrap();
                n.check_live(Some(id), "C01", "Rc");
                let c = self.rc[i].verif_counts().unwrap();
                if c.strong == 0 || c.destructed {
                    mon::violation("C01", "C01|count-word-bad-under-rc", format!("#{}: count word {:?} while an Rc is held", id, c));
                }
            }
        }
        for j in 0..NSN {
            if let Some(s) = self.snaps[j].as_ref() {
                if let Some(id) = s.id {
                    let c01 = mon::check_prop() == "C01";
                    if !c01 {
                        s.s.as_ref().unwrap().check_live(Some(id), "C02", mon::ORIGINS[s.origin as usize]);
                        let c = s.s.verif_counts().unwrap();
                        if c.destructed {
                            mon::violation("C02", &format!("C02|destructed-flag-under-snapshot|origin={}", mon::ORIGINS[s.origin as usize]), format!("#{}: DESTRUCTED set while a snapshot under a live guard is held", id));
                        }
                    }
                    // the snapshot is turned into an owner, which must then refer to a live object (C01: "however obtained")
                    let r = s.s.counted();
                    l_add(&obj(id).rc, 1);
                    r.as_ref().unwrap().check_live(Some(id), "C01", "Snapshot::counted");
                    let c = r.verif_counts().unwrap();
                    if c.strong == 0 || c.destructed {
                        mon::violation("C01", "C01|count-word-bad-under-rc|via=Snapshot::counted", format!("#{}: count word {:?} behind an Rc returned by Snapshot::counted (origin of the snapshot: {})", id, c, mon::ORIGINS[s.origin as usize]));
                    }
                    l_add(&obj(id).rc, -1);
                    drop(r);
                }
            }
        }
        for i in 0..NWK {
            if let Some(id) = self.wkid[i] {
                let c = self.wk[i].verif_counts().unwrap();
                if c.weak == 0 {
                    mon::violation("C03", "C03|weak-count-zero-under-weak", format!("#{}: count word {:?} while a Weak is held", id, c));
                }
            }
        }
        for j in 0..NWS {
            if let Some(s) = self.wsnaps[j].as_ref() {
                if s.id.is_some() {
                    let _ = s.s.verif_counts().unwrap();
                }
            }
        }
    }

    /// Releases everything the thread holds (end of program).
    pub fn finish(&mut self) {
        self.deref_all();
        if let Some((it, id, rem)) = self.iter.take() {
            l_add(&obj(id).bulk, -(rem as i32));
            drop(it);
        }
        if let Some((c, held)) = self.lcell.take() {
            self.rc_sub(held);
            drop(c);
        }
        if let Some((c, held)) = self.lwcell.take() {
            self.wk_sub(held);
            drop(c);
        }
        for s in 0..NG {
            if self.guards[s].g.is_some() {
                self.unpin(s);
            }
        }
        for i in 0..NRC {
            let (r, id) = self.take_rc(i);
            self.rc_sub(id);
            drop(r);
        }
        for i in 0..NWK {
            let (w, id) = self.take_wk(i);
            self.wk_sub(id);
            drop(w);
        }
        self.lg("end".into());
        mon::flush_evals();
    }
}

pub struct UpgradePre {
    pub inv: u64,
    pub dbegin: u64,
    pub dset: u64,
    pub drop_end: u64,
    pub first_fail: u64,
}
impl UpgradePre {
    pub fn read(id: u32) -> Self {
        let o = obj(id);
        let p = UpgradePre {
            dbegin: o.dbegin_stamp.load(SeqCst),
            dset: o.dset_stamp.load(SeqCst),
            drop_end: o.drop_end_stamp.load(SeqCst),
            first_fail: o.first_fail_upgrade_ret.load(SeqCst),
            inv: 0,
        };
        UpgradePre { inv: mon::stamp(), ..p }
    }
}
