//! Runs batches of random reference-counting programs (modes S and P), audits at quiescence (M4),
//! checks the recorded histories (M5) and prints a summary record.

use crate::hist::{self, CellOp, LinResult, Val};
use crate::json::{Counts, J};
use crate::mon::{self, obj};
use crate::node::{new_node, VNode};
use crate::rcprog::{Flags, Profile, Role, Shared, K, T};
use crate::rng::{mix, Rng};
use crate::sched::{self, ExecCfg, Mode, Policy, Stall, ANY};
use circ::verif::site as S;
use circ::{AtomicRc, AtomicWeak, Rc, Weak};
use std::collections::{HashMap, HashSet};
use std::sync::atomic::{AtomicU64, Ordering::*};
use std::sync::{Arc, Mutex};
use std::time::Instant;

pub fn churn(n: usize) {
    for _ in 0..n {
        let g = circ::cs();
        g.flush();
        drop(g);
    }
}

/// Drives collection rounds until no reference-counting-layer deferral is pending.
/// Returns the number of rounds used, or None if the bound was exceeded.
pub fn drain(bound: usize) -> Option<usize> {
    for r in 0..bound {
        if mon::RC_PENDING.load(SeqCst) == 0 {
            return Some(r);
        }
        churn(1);
    }
    if mon::RC_PENDING.load(SeqCst) == 0 {
        Some(bound)
    } else {
        None
    }
}

fn w(list: &[(K, u32)]) -> Vec<(K, u32)> {
    list.to_vec()
}

pub fn profile(name: &str) -> Profile {
    let base_sites = vec![
        S::INCS_ADD2, S::DECS_LOAD, S::DECS_CAS, S::DECS_DEFER, S::TD_LOAD, S::TD_CAS, S::ARC_STORE_DEC,
        S::COLLECT_AFTER_ADVANCE, S::COLLECT_POP, S::DISP_CHILD, S::DISP_SIBLING, S::DISP_CHILD_CAS,
        S::IND_LOAD, S::IND_CAS, S::DISP_LOAD, S::DISP_EPOCH, S::PIN_VALIDATE, S::PIN_PUBLISH, S::BAG_CALL,
    ];
    let common: Vec<(K, u32)> = w(&[
        (K::New, 8), (K::Clone, 6), (K::DropRc, 10), (K::Finalize, 3), (K::Store, 8), (K::Swap, 6),
        (K::Cas, 6), (K::CasWeak, 2), (K::CasTag, 2), (K::Load, 10), (K::RcSnapshot, 3), (K::Counted, 5),
        (K::Downgrade, 4), (K::WeakClone, 1), (K::WeakDrop, 3), (K::Upgrade, 5), (K::WeakSnap, 3),
        (K::SnapDowngrade, 2), (K::WsCounted, 2), (K::WsUpgrade, 4), (K::WStore, 2), (K::WSwap, 1), (K::WCas, 1),
        (K::WLoad, 2), (K::WithTag, 1), (K::Pin, 4), (K::Unpin, 6), (K::Reactivate, 1), (K::ReactivateAfter, 1),
        (K::Flush, 2), (K::Churn, 8), (K::Deref, 10), (K::NewMany, 1), (K::NewIter, 1), (K::IterNext, 2),
        (K::IterDrop, 1), (K::IterAbort, 1), (K::WeakMany, 1), (K::LinkChain, 2), (K::LocalCell, 3), (K::LocalWCell, 3), (K::Convert, 3),
    ]);
    let mut p = Profile {
        name: "rc",
        weights: common.clone(),
        roles: Vec::new(),
        threads: (2, 3),
        ops: (8, 40),
        nroots: 3,
        nwroots: 2,
        stall_sites: base_sites.clone(),
        record_cells: false,
        record_wcells: false,
        prefill: 10,
        long_chain: 0,
        churn_thread: true,
        tags: false,
        choreo: false,
        choreo_weak_revive: false,
        no_pool: false,
    };
    match name {
        "c01" => {
            p.name = "c01";
            p.weights = w(&[
                (K::New, 8), (K::Clone, 10), (K::DropRc, 14), (K::Finalize, 3), (K::Store, 8), (K::Swap, 8),
                (K::Cas, 6), (K::CasWeak, 2), (K::Load, 8), (K::Counted, 10), (K::Downgrade, 6), (K::WeakDrop, 2),
                (K::Upgrade, 12), (K::WeakSnap, 2), (K::WsUpgrade, 3), (K::Pin, 3), (K::Unpin, 6), (K::Churn, 10),
                (K::Deref, 12), (K::NewMany, 2), (K::NewIter, 2), (K::IterNext, 3), (K::IterDrop, 1), (K::IterAbort, 1),
                (K::Flush, 2), (K::LinkChain, 1), (K::WLoad, 1), (K::WStore, 1), (K::WeakMany, 3), (K::WeakClone, 1), (K::LocalCell, 4), (K::Convert, 3), (K::WithTag, 3),
            ]);
            p.stall_sites = vec![
                S::INCS_ADD2, S::INCS_ADD2, S::INCS_ADD2, S::INCS_ADD1, S::DECS_LOAD, S::DECS_CAS, S::DECS_DEFER, S::TD_LOAD,
                S::TD_CAS, S::ARC_STORE_DEC, S::ARC_SWAP, S::ARC_CAS, S::COLLECT_POP, S::BAG_CALL, S::DISP_CHILD_CAS,
            ];
        }
        "c02" => {
            p.name = "c02";
            p.weights = w(&[
                (K::New, 6), (K::Clone, 3), (K::DropRc, 12), (K::Store, 10), (K::Swap, 8), (K::Cas, 8), (K::CasTag, 2),
                (K::Load, 16), (K::RcSnapshot, 4), (K::Counted, 3), (K::Downgrade, 5), (K::WeakDrop, 2), (K::Upgrade, 2),
                (K::WeakSnap, 5), (K::WsUpgrade, 8), (K::WLoad, 4), (K::WStore, 3), (K::Pin, 5), (K::Unpin, 5),
                (K::Reactivate, 1), (K::Churn, 10), (K::Deref, 14), (K::LinkChain, 5), (K::Flush, 2), (K::SnapDowngrade, 2),
            ]);
            p.long_chain = 700;
            p.prefill = 14;
            p.stall_sites = vec![
                S::DECS_LOAD, S::DECS_LOAD, S::DECS_CAS, S::DECS_DEFER, S::COLLECT_AFTER_ADVANCE, S::COLLECT_AFTER_ADVANCE,
                S::COLLECT_POP, S::COLLECT_POP, S::DISP_CHILD, S::DISP_SIBLING, S::DISP_SIBLING, S::DISP_CHILD_CAS,
                S::DISP_REPIN, S::IND_LOAD, S::IND_CAS, S::DISP_LOAD, S::DISP_EPOCH, S::BAG_CALL, S::TD_LOAD, S::TD_CAS,
                S::PIN_VALIDATE, S::ARC_LOAD,
            ];
        }
        "c03" => {
            p.name = "c03";
            p.weights = w(&[
                (K::New, 8), (K::Clone, 2), (K::DropRc, 12), (K::Store, 4), (K::Swap, 3), (K::Load, 5),
                (K::Downgrade, 12), (K::WeakMany, 2), (K::WeakClone, 6), (K::WeakDrop, 12), (K::Upgrade, 8),
                (K::WeakSnap, 8), (K::SnapDowngrade, 4), (K::WsCounted, 10), (K::WsUpgrade, 6), (K::WStore, 8),
                (K::WSwap, 6), (K::WCas, 6), (K::WCasTag, 2), (K::WLoad, 10), (K::Pin, 4), (K::Unpin, 5),
                (K::Churn, 10), (K::Deref, 10), (K::Flush, 2), (K::LocalWCell, 5), (K::Convert, 4), (K::WithTag, 4),
            ]);
            p.stall_sites = vec![
                S::DECW_SUB, S::DECW_DEFER, S::DECW_DEFER, S::TRY_DEALLOC_LOAD, S::TRY_DEALLOC_LOAD, S::INCW_LOAD,
                S::INCW_CAS, S::INCW_ADD1, S::INCW_ADD2, S::INCW_ADD2, S::DISP_WEAKED, S::DISP_WEAKED, S::AW_STORE_DEC,
                S::AW_LOAD, S::COLLECT_POP, S::BAG_CALL, S::INCS_ADD1, S::IND_LOAD,
            ];
        }
        "c04" => {
            p.name = "c04";
            p.long_chain = 400;
            p.prefill = 14;
        }
        "c05" => {
            p.name = "c05";
            p.weights = w(&[
                (K::New, 8), (K::Clone, 3), (K::DropRc, 14), (K::Store, 8), (K::Swap, 5), (K::Load, 5),
                (K::Downgrade, 10), (K::WeakClone, 2), (K::WeakDrop, 3), (K::Upgrade, 18), (K::WeakSnap, 8),
                (K::WsUpgrade, 14), (K::WLoad, 5), (K::WStore, 4), (K::Counted, 3), (K::Pin, 4), (K::Unpin, 5),
                (K::Churn, 12), (K::Deref, 8), (K::LinkChain, 3), (K::SnapDowngrade, 3), (K::Flush, 2),
            ]);
            p.prefill = 14;
            p.stall_sites = vec![
                S::INCS_ADD1, S::INCS_ADD2, S::INCS_ADD2, S::IND_LOAD, S::IND_CAS, S::TD_LOAD, S::TD_CAS, S::TD_CAS,
                S::DISP_CHILD_CAS, S::DISP_SIBLING, S::DISP_LOAD, S::DECS_CAS, S::COLLECT_POP, S::BAG_CALL,
            ];
        }
        "c08" => {
            p.name = "c08";
            p.weights = w(&[
                (K::New, 8), (K::Clone, 4), (K::DropRc, 4), (K::Store, 10), (K::Swap, 10), (K::Cas, 14), (K::CasWeak, 5),
                (K::CasTag, 8), (K::Load, 14), (K::WithTag, 6), (K::Pin, 3), (K::Unpin, 3), (K::Reactivate, 1),
                (K::Churn, 8), (K::Counted, 2), (K::Deref, 3), (K::Restamp, 8), (K::LocalCell, 4), (K::Convert, 2),
            ]);
            p.record_cells = true;
            p.nroots = 2;
            p.nwroots = 1;
            p.ops = (4, 12);
            p.tags = true;
            p.prefill = 12;
            p.stall_sites = vec![
                S::ARC_LOAD, S::ARC_STORE_SWAP, S::ARC_STORE_DEC, S::ARC_SWAP, S::ARC_CAS, S::ARC_CAS, S::ARC_CAS_RETRY,
                S::ARC_CAS_TAG, S::ARC_TIMESTAMP, S::DECS_CAS,
            ];
        }
        "c09" => {
            p.name = "c09";
            p.weights = w(&[
                (K::New, 8), (K::DropRc, 3), (K::Store, 6), (K::Load, 8), (K::Downgrade, 10), (K::WeakClone, 3),
                (K::WeakDrop, 3), (K::WeakSnap, 8), (K::SnapDowngrade, 10), (K::WStore, 10), (K::WSwap, 10),
                (K::WCas, 16), (K::WCasTag, 8), (K::WLoad, 14), (K::WithTag, 5), (K::Pin, 3), (K::Unpin, 3),
                (K::Churn, 10), (K::WsCounted, 4), (K::Deref, 3), (K::Swap, 3), (K::Restamp, 8), (K::WRestamp, 14), (K::LocalWCell, 5), (K::Convert, 3),
            ]);
            p.record_wcells = true;
            p.nroots = 1;
            p.nwroots = 2;
            p.ops = (4, 12);
            p.tags = true;
            p.prefill = 12;
            p.stall_sites = vec![
                S::AW_LOAD, S::AW_STORE_SWAP, S::AW_STORE_DEC, S::AW_SWAP, S::AW_CAS, S::AW_CAS, S::AW_CAS, S::AW_CAS, S::AW_CAS_TAG, S::DECW_SUB,
            ];
        }
        "c08r" | "c09r" => {
            // CASes in flight while the same pointer is re-written at other epochs (only the internal stamp changes)
            let weak = name == "c09r";
            p.name = if weak { "c09r" } else { "c08r" };
            p.record_cells = !weak;
            p.record_wcells = weak;
            p.nroots = if weak { 1 } else { 1 };
            p.nwroots = if weak { 1 } else { 1 };
            p.tags = true;
            p.prefill = 6;
            p.threads = (2, 4);
            let caser = Role {
                name: "caser",
                weights: w(&[(K::Load, 10), (K::Cas, 18), (K::CasWeak, 3), (K::CasTag, 5), (K::RcSnapshot, 3), (K::Counted, 3), (K::Pin, 2), (K::Unpin, 2), (K::New, 4), (K::WithTag, 2), (K::Store, 7), (K::Swap, 3), (K::DropRc, 3)]),
                ops: (5, 14),
            };
            let restamper = Role {
                name: "restamper",
                weights: w(&[(K::Restamp, 18), (K::Churn, 10), (K::Store, 6), (K::Swap, 3), (K::Load, 2), (K::Unpin, 3), (K::CasTag, 2), (K::New, 2), (K::DropRc, 2)]),
                ops: (5, 14),
            };
            let wcaser = Role {
                name: "weak-caser",
                weights: w(&[(K::WLoad, 10), (K::WCas, 18), (K::WCasTag, 5), (K::WeakSnap, 3), (K::WsCounted, 3), (K::Downgrade, 4), (K::SnapDowngrade, 3), (K::Load, 3), (K::Pin, 2), (K::Unpin, 2), (K::WithTag, 2), (K::WStore, 7), (K::WSwap, 3), (K::WeakDrop, 3)]),
                ops: (5, 14),
            };
            let wrestamper = Role {
                name: "weak-restamper",
                weights: w(&[(K::WRestamp, 18), (K::Churn, 10), (K::WStore, 6), (K::WSwap, 3), (K::WLoad, 2), (K::Unpin, 3), (K::WCasTag, 2), (K::Restamp, 4), (K::Downgrade, 2), (K::WeakDrop, 2)]),
                ops: (5, 14),
            };
            if weak {
                p.roles = vec![wcaser, wrestamper];
                p.stall_sites = vec![S::AW_CAS, S::AW_CAS, S::AW_CAS, S::AW_CAS_TAG, S::AW_LOAD, S::AW_STORE_SWAP, S::AW_STORE_DEC];
            } else {
                p.roles = vec![caser, restamper];
                p.stall_sites = vec![S::ARC_CAS_RETRY, S::ARC_CAS_RETRY, S::ARC_CAS_RETRY, S::ARC_CAS, S::ARC_CAS, S::ARC_CAS_TAG, S::ARC_TIMESTAMP, S::ARC_STORE_SWAP, S::ARC_STORE_DEC];
            }
        }
        "c02f" | "c01f" | "c05f" | "c03f" => {
            // focused workloads: droppers / unlinkers against readers / upgraders on prefilled structures
            let dropper = Role {
                name: "dropper",
                weights: w(&[(K::DropRc, 6), (K::Store, 7), (K::Swap, 4), (K::Churn, 10), (K::Flush, 3), (K::Finalize, 1), (K::Pin, 1), (K::Unpin, 3), (K::Load, 2), (K::Counted, 2)]),
                ops: (4, 14),
            };
            let unlinker = Role {
                name: "unlinker",
                weights: w(&[(K::Swap, 8), (K::DropRc, 8), (K::Store, 4), (K::Load, 3), (K::Counted, 3), (K::Churn, 4), (K::Pin, 1), (K::Unpin, 3), (K::WSwap, 1)]),
                ops: (3, 10),
            };
            let reader = Role {
                name: "reader",
                weights: w(&[(K::Pin, 3), (K::Load, 10), (K::WLoad, 7), (K::WsUpgrade, 10), (K::WeakSnap, 2), (K::Deref, 14), (K::RcSnapshot, 1), (K::Unpin, 1), (K::CasTag, 1), (K::Cas, 1)]),
                ops: (6, 20),
            };
            let upgrader = Role {
                name: "upgrader",
                weights: w(&[(K::Upgrade, 14), (K::WLoad, 6), (K::WsCounted, 7), (K::WsUpgrade, 5), (K::WeakSnap, 2), (K::Deref, 10), (K::DropRc, 4), (K::Clone, 2), (K::Store, 3), (K::Swap, 2), (K::Load, 3), (K::Counted, 3), (K::Downgrade, 4), (K::Unpin, 4), (K::Churn, 2)]),
                ops: (5, 16),
            };
            let weak_dropper = Role {
                name: "weak-dropper",
                weights: w(&[(K::WeakDrop, 10), (K::WStore, 7), (K::WSwap, 5), (K::Churn, 9), (K::DropRc, 4), (K::Store, 3), (K::Unpin, 3), (K::Flush, 2), (K::WLoad, 3), (K::WsCounted, 3), (K::WithTag, 3)]),
                ops: (4, 14),
            };
            let weak_reader = Role {
                name: "weak-reader",
                weights: w(&[(K::Pin, 3), (K::WLoad, 10), (K::WsCounted, 10), (K::WeakSnap, 4), (K::WeakClone, 3), (K::WeakDrop, 5), (K::Upgrade, 4), (K::WsUpgrade, 4), (K::Deref, 8), (K::Unpin, 2), (K::WCas, 2), (K::Load, 3), (K::SnapDowngrade, 3)]),
                ops: (6, 20),
            };
            // readers that keep an outer guard (and what they loaded under it) while re-activating inner guards
            let nested_reader = Role {
                name: "nested-reader",
                weights: w(&[(K::Pin, 8), (K::Load, 9), (K::Reactivate, 10), (K::ReactivateAfter, 2), (K::Deref, 12), (K::WLoad, 2), (K::WsUpgrade, 3), (K::Unpin, 1), (K::RcSnapshot, 1)]),
                ops: (10, 30),
            };
            let nested_weak_reader = Role {
                name: "nested-weak-reader",
                weights: w(&[(K::Pin, 8), (K::WLoad, 10), (K::Reactivate, 10), (K::ReactivateAfter, 2), (K::WeakSnap, 3), (K::WsCounted, 4), (K::WsUpgrade, 3), (K::Deref, 8), (K::Unpin, 1), (K::WeakDrop, 2)]),
                ops: (10, 30),
            };
            p.prefill = 16;
            p.threads = (3, 4);
            p.nroots = 3;
            p.nwroots = 2;
            match name {
                "c02f" => {
                    p.name = "c02f";
                    p.long_chain = 700;
                    p.roles = vec![dropper, reader, unlinker, reader_clone(), nested_reader];
                    p.stall_sites = vec![
                        S::DECS_LOAD, S::DECS_LOAD, S::DECS_CAS, S::COLLECT_AFTER_ADVANCE, S::COLLECT_AFTER_ADVANCE, S::COLLECT_POP,
                        S::COLLECT_POP, S::BAG_CALL, S::BAG_CALL, S::DISP_CHILD, S::DISP_SIBLING, S::DISP_SIBLING, S::DISP_CHILD_CAS,
                        S::DISP_REPIN, S::DISP_LOAD, S::DISP_EPOCH, S::TD_LOAD, S::TD_CAS, S::IND_LOAD, 120,
                    ];
                }
                "c01f" => {
                    p.name = "c01f";
                    p.roles = vec![dropper, upgrader, unlinker];
                    p.stall_sites = vec![
                        S::INCS_ADD2, S::INCS_ADD2, S::INCS_ADD2, S::INCS_ADD1, S::DECS_LOAD, S::DECS_CAS, S::TD_LOAD, S::TD_CAS,
                        S::COLLECT_POP, S::BAG_CALL, S::DISP_CHILD_CAS, S::DISP_LOAD, S::DISP_EPOCH, S::DISP_EPOCH, 120,
                    ];
                }
                "c05f" => {
                    p.name = "c05f";
                    p.roles = vec![dropper, upgrader, reader];
                    p.stall_sites = vec![
                        S::INCS_ADD1, S::INCS_ADD2, S::INCS_ADD2, S::IND_LOAD, S::IND_CAS, S::TD_LOAD, S::TD_CAS, S::TD_CAS,
                        S::DISP_CHILD_CAS, S::DISP_SIBLING, S::DISP_LOAD, S::DISP_EPOCH, S::DISP_EPOCH, S::DECS_CAS, S::COLLECT_POP, S::BAG_CALL, 120,
                    ];
                }
                _ => {
                    p.name = "c03f";
                    p.roles = vec![weak_dropper, weak_reader, dropper, nested_weak_reader];
                    p.stall_sites = vec![
                        S::DECW_SUB, S::DECW_DEFER, S::DECW_DEFER, S::TRY_DEALLOC_LOAD, S::TRY_DEALLOC_LOAD, S::INCW_LOAD,
                        S::INCW_CAS, S::INCW_ADD1, S::INCW_ADD2, S::INCW_ADD2, S::INCW_ADD2, S::DISP_WEAKED, S::DISP_WEAKED,
                        S::AW_STORE_DEC, S::COLLECT_POP, S::BAG_CALL, 120,
                    ];
                }
            }
        }
        "c02g" => {
            // "late reader against a due cascade", on random shapes / stamps / residues
            p.name = "c02g";
            p.choreo = true;
            p.prefill = 16;
            p.long_chain = 700;
            p.threads = (3, 4);
            p.churn_thread = false;
            let reader = Role {
                name: "late-reader",
                weights: w(&[(K::Load, 10), (K::WLoad, 8), (K::WsUpgrade, 12), (K::WeakSnap, 2), (K::Deref, 8), (K::RcSnapshot, 1), (K::Counted, 2), (K::Upgrade, 2), (K::WsCounted, 2), (K::Cas, 1)]),
                ops: (3, 9),
            };
            let unlinker = Role {
                name: "late-unlinker",
                weights: w(&[(K::Swap, 10), (K::DropRc, 10), (K::Store, 4), (K::Load, 4), (K::Deref, 2), (K::WSwap, 2), (K::WeakDrop, 2)]),
                ops: (2, 7),
            };
            p.roles = vec![reader, unlinker, reader_clone()];
            p.stall_sites = vec![S::COLLECT_AFTER_ADVANCE, S::COLLECT_AFTER_ADVANCE, S::COLLECT_POP, S::BAG_CALL, S::TD_LOAD, S::DISP_LOAD, S::DISP_CHILD, S::DISP_SIBLING, S::DISP_CHILD_CAS];
        }
        "c16rc" => {
            // explicit flushes under a long-lived guard while other threads retire long chains
            p.name = "c16rc";
            p.prefill = 16;
            p.long_chain = 400;
            p.threads = (2, 3);
            let flusher = Role {
                name: "flusher",
                weights: w(&[(K::Pin, 2), (K::Load, 7), (K::Flush, 16), (K::Deref, 5), (K::WLoad, 2), (K::WsUpgrade, 2)]),
                ops: (12, 40),
            };
            let retirer = Role {
                name: "retirer",
                weights: w(&[(K::LinkChain, 10), (K::DropRc, 12), (K::Flush, 3), (K::Unpin, 5), (K::Churn, 3), (K::Swap, 8), (K::Store, 5)]),
                ops: (8, 28),
            };
            p.roles = vec![flusher, retirer];
            p.stall_sites = vec![S::COLLECT_AFTER_ADVANCE, S::COLLECT_POP, S::BAG_CALL, S::DISP_REPIN, S::DISP_REPIN, S::ADV_STORE, S::UNPIN_COLLECT, 120];
        }
        "c03g" => {
            // "late weak reader against a due try_dealloc of a revived weak count"
            p.name = "c03g";
            p.choreo = true;
            p.choreo_weak_revive = true;
            p.prefill = 8;
            p.threads = (3, 4);
            p.nwroots = 2;
            p.churn_thread = false;
            let reader = Role {
                name: "late-weak-reader",
                weights: w(&[(K::WLoad, 14), (K::WsCounted, 4), (K::WsUpgrade, 5), (K::WeakSnap, 2), (K::Deref, 8), (K::Load, 2)]),
                ops: (3, 9),
            };
            let unlinker = Role {
                name: "late-weak-unlinker",
                weights: w(&[(K::WSwap, 12), (K::WeakDrop, 12), (K::WStore, 4), (K::WLoad, 3), (K::Deref, 2)]),
                ops: (2, 7),
            };
            p.roles = vec![reader, unlinker];
            p.stall_sites = vec![S::COLLECT_AFTER_ADVANCE, S::COLLECT_AFTER_ADVANCE, S::COLLECT_POP, S::COLLECT_POP, S::BAG_CALL, S::BAG_CALL, S::TRY_DEALLOC_LOAD, S::DECW_SUB];
        }
        "c03h" => {
            // first downgrade of an object racing with updates of its strong count
            p.name = "c03h";
            p.no_pool = true;
            p.prefill = 16;
            p.threads = (3, 4);
            p.nroots = 2;
            p.nwroots = 1;
            let downgrader = Role {
                name: "first-downgrader",
                weights: w(&[(K::Load, 8), (K::Counted, 8), (K::Downgrade, 14), (K::WeakDrop, 3), (K::DropRc, 5), (K::Deref, 4), (K::Unpin, 3), (K::Upgrade, 2), (K::New, 3)]),
                ops: (6, 20),
            };
            let churner = Role {
                name: "strong-churner",
                weights: w(&[(K::Load, 8), (K::Counted, 8), (K::Clone, 8), (K::DropRc, 10), (K::Unpin, 3), (K::Finalize, 2), (K::Deref, 2)]),
                ops: (6, 20),
            };
            let dropper = Role {
                name: "dropper",
                weights: w(&[(K::Store, 8), (K::Swap, 6), (K::DropRc, 8), (K::Churn, 10), (K::Unpin, 3), (K::Flush, 2)]),
                ops: (4, 14),
            };
            p.roles = vec![downgrader, churner, dropper];
            p.stall_sites = vec![S::INCW_CAS, S::INCW_CAS, S::INCW_CAS, S::INCW_CAS, S::INCW_LOAD, S::INCW_ADD1, S::DISP_WEAKED, S::DECS_CAS, 120];
        }
        "c10b" => {
            // bulk constructors / weak_many racing with ordinary traffic on the same count word
            p.name = "c10b";
            p.no_pool = true;
            p.prefill = 8;
            p.threads = (3, 4);
            p.nroots = 2;
            p.nwroots = 1;
            let maker = Role {
                name: "bulk-maker",
                weights: w(&[(K::NewMany, 10), (K::NewIter, 8), (K::IterNext, 10), (K::IterDrop, 4), (K::IterAbort, 4), (K::Store, 8), (K::Swap, 3), (K::DropRc, 8), (K::WeakMany, 6), (K::Unpin, 3), (K::Finalize, 2), (K::Churn, 3)]),
                ops: (8, 24),
            };
            let downgrader = Role {
                name: "bulk-downgrader",
                weights: w(&[(K::Load, 8), (K::Counted, 8), (K::WeakMany, 14), (K::WeakDrop, 6), (K::DropRc, 6), (K::Deref, 3), (K::Unpin, 3), (K::Upgrade, 6), (K::New, 2), (K::WStore, 2)]),
                ops: (6, 20),
            };
            let churner = Role {
                name: "strong-churner",
                weights: w(&[(K::Load, 8), (K::Counted, 8), (K::Clone, 8), (K::DropRc, 10), (K::Unpin, 3), (K::Finalize, 2), (K::Deref, 2), (K::Churn, 4), (K::WLoad, 2), (K::WsUpgrade, 3), (K::Upgrade, 3)]),
                ops: (6, 20),
            };
            p.roles = vec![maker, downgrader, churner];
            p.stall_sites = vec![S::INCW_CAS, S::INCW_CAS, S::INCW_CAS, S::INCW_LOAD, S::INCW_ADD1, S::DISP_WEAKED, S::DECS_CAS, S::DECS_LOAD, S::TD_LOAD, S::TD_CAS, S::INCS_ADD2, 120];
        }
        "c01g" => {
            // "late upgrader against a due destruction attempt"
            p.name = "c01g";
            p.choreo = true;
            p.prefill = 16;
            p.threads = (3, 4);
            p.nwroots = 3;
            p.churn_thread = false;
            let upgrader = Role {
                name: "late-upgrader",
                weights: w(&[(K::WLoad, 10), (K::WsCounted, 10), (K::Upgrade, 14), (K::WsUpgrade, 6), (K::Counted, 4), (K::Clone, 3), (K::Deref, 8), (K::Load, 3), (K::WeakClone, 2), (K::Store, 2), (K::Swap, 2)]),
                ops: (4, 12),
            };
            let upgrader2 = Role {
                name: "late-upgrader2",
                weights: w(&[(K::WLoad, 10), (K::WsCounted, 8), (K::Upgrade, 12), (K::WsUpgrade, 8), (K::Deref, 8), (K::DropRc, 4), (K::WeakDrop, 3), (K::Downgrade, 3), (K::Load, 3), (K::Counted, 3)]),
                ops: (4, 12),
            };
            p.roles = vec![upgrader, upgrader2];
            p.stall_sites = vec![S::TD_LOAD, S::TD_CAS, S::TD_CAS, S::TD_CAS, S::BAG_CALL, S::COLLECT_POP, S::COLLECT_AFTER_ADVANCE, S::DISP_LOAD, S::DISP_EPOCH, S::DISP_EPOCH, S::DISP_EPOCH, S::DISP_CHILD_CAS, S::DISP_WEAKED, S::DECS_CAS];
        }
        "tiny" => {
            // small programs for Miri (about four orders of magnitude slower than native)
            p.name = "tiny";
            p.threads = (2, 2);
            p.ops = (3, 9);
            p.nroots = 2;
            p.nwroots = 1;
            p.prefill = 10;
            p.weights = w(&[
                (K::New, 6), (K::Clone, 4), (K::DropRc, 10), (K::Store, 8), (K::Swap, 6), (K::Cas, 4), (K::Load, 10), (K::Counted, 5),
                (K::Downgrade, 6), (K::WeakDrop, 5), (K::Upgrade, 8), (K::WeakSnap, 3), (K::WsUpgrade, 5), (K::WsCounted, 3), (K::WLoad, 4),
                (K::WStore, 4), (K::Pin, 2), (K::Unpin, 5), (K::Churn, 6), (K::Deref, 8),
            ]);
        }
        "c14" => {
            p.name = "c14";
            p.long_chain = 600;
            p.threads = (2, 4);
        }
        _ => {}
    }
    p
}

static CH_TARGET: std::sync::atomic::AtomicUsize = std::sync::atomic::AtomicUsize::new(usize::MAX);
static CH_DONE: AtomicU64 = AtomicU64::new(0);
static CH_LATE: AtomicU64 = AtomicU64::new(0);
static CH_NLATE: AtomicU64 = AtomicU64::new(0);
fn ch_when(_h: u32) -> bool {
    circ::verif::global_epoch() >= CH_TARGET.load(SeqCst)
}
fn ch_start(_a: usize, _b: usize) -> bool {
    sched::is_stalled(0) || CH_DONE.load(SeqCst) == 1
}
fn ch_done(_a: usize, _b: usize) -> bool {
    CH_DONE.load(SeqCst) == 1
}
fn ch_until() -> bool {
    CH_LATE.load(SeqCst) >= CH_NLATE.load(SeqCst)
}

fn reader_clone() -> Role {
    Role {
        name: "reader2",
        weights: w(&[(K::Pin, 3), (K::Load, 12), (K::WLoad, 4), (K::WsUpgrade, 6), (K::Deref, 14), (K::Unpin, 1), (K::Swap, 3), (K::DropRc, 3)]),
        ops: (5, 16),
    }
}

fn build_prefill(rng: &mut Rng, prof: &Profile, g: &circ::Guard, pool: &mut Vec<(Weak<VNode>, u32)>) -> (Rc<VNode>, Option<u32>) {
    let shape = rng.below(if prof.long_chain > 0 { 8 } else { 6 });
    let pool = std::cell::RefCell::new(pool);
    let mk = |rng: &mut Rng| {
        let mask = *rng.pick(&[3u8, 3, 3, 3, 1, 2, 0]);
        let (r, id) = new_node(mask);
        // weak handles to some of the nodes (used for weak roots and for second strong owners)
        if !prof.no_pool && rng.chance(1, 2) {
            pool.borrow_mut().push((r.downgrade(), id));
        }
        (r, id)
    };
    match shape {
        0 => {
            let (r, id) = mk(rng);
            (r, Some(id))
        }
        1 | 2 => {
            // chain of 2..5
            let n = rng.range(2, 5) as usize;
            let mut nodes: Vec<(Rc<VNode>, u32)> = (0..n).map(|_| mk(rng)).collect();
            let mut tail: Rc<VNode> = Rc::null();
            let mut first = None;
            while let Some((r, id)) = nodes.pop() {
                if !tail.is_null() {
                    let k = rng.below(2) as usize;
                    // weak back-pointer from child to parent sometimes
                    if !prof.no_pool && rng.chance(1, 3) {
                        tail.as_ref().unwrap().back.store(r.downgrade(), SeqCst, g);
                    }
                    r.as_ref().unwrap().next[k].store(tail, SeqCst, g);
                }
                tail = r;
                first = Some(id);
            }
            (tail, first)
        }
        3 => {
            // parent with two children
            let (p, pid) = mk(rng);
            let (a, _) = mk(rng);
            let (b, _) = mk(rng);
            if !prof.no_pool && rng.chance(1, 2) {
                a.as_ref().unwrap().back.store(p.downgrade(), SeqCst, g);
            }
            p.as_ref().unwrap().next[0].store(a, SeqCst, g);
            p.as_ref().unwrap().next[1].store(b, SeqCst, g);
            (p, Some(pid))
        }
        4 => {
            // diamond: p -> a, p -> b, a -> c, b -> c
            let (p, pid) = mk(rng);
            let (a, _) = mk(rng);
            let (b, _) = mk(rng);
            let (c, _) = mk(rng);
            a.as_ref().unwrap().next[0].store(c.clone(), SeqCst, g);
            b.as_ref().unwrap().next[1].store(c, SeqCst, g);
            p.as_ref().unwrap().next[0].store(a, SeqCst, g);
            p.as_ref().unwrap().next[1].store(b, SeqCst, g);
            (p, Some(pid))
        }
        5 => {
            // depth-2 binary tree
            let (p, pid) = mk(rng);
            for k in 0..2 {
                let (c, _) = mk(rng);
                for kk in 0..2 {
                    if rng.chance(2, 3) {
                        let (d, _) = mk(rng);
                        c.as_ref().unwrap().next[kk].store(d, SeqCst, g);
                    }
                }
                p.as_ref().unwrap().next[k].store(c, SeqCst, g);
            }
            (p, Some(pid))
        }
        _ => {
            // parent with a long left chain and a single right child (sibling after a long subtree)
            let (p, pid) = mk(rng);
            let n = rng.range(130, prof.long_chain as u64) as usize;
            let mut nodes: Vec<(Rc<VNode>, u32)> = (0..n).map(|_| new_node(3)).collect();
            let (b, bid) = new_node(3);
            if !prof.no_pool {
                pool.borrow_mut().push((b.downgrade(), bid));
            }
            let mut tail: Rc<VNode> = Rc::null();
            while let Some((r, _)) = nodes.pop() {
                if !tail.is_null() {
                    r.as_ref().unwrap().next[0].store(tail, SeqCst, g);
                }
                tail = r;
            }
            p.as_ref().unwrap().next[0].store(tail, SeqCst, g);
            p.as_ref().unwrap().next[1].store(b, SeqCst, g);
            (p, Some(pid))
        }
    }
}

#[derive(Default)]
pub struct BatchStats {
    pub execs: u64,
    pub cut: u64,
    pub steps: u64,
    pub switches: u64,
    pub ops: u64,
    pub objs: u64,
    pub hashes: HashSet<u64>,
    pub nontrivial_hashes: HashSet<u64>,
    pub flags: Counts,
    pub site_hits: Vec<u64>,
    pub site_preempt: Vec<u64>,
    pub stalls: Counts,
    pub residues: [u64; 16],
    pub destructs: Counts,
    pub samples: Vec<J>,
    pub lin_cells: u64,
    pub lin_ops: u64,
    pub lin_inconclusive: u64,
    pub audit_rounds_max: usize,
    pub upgrades: [u64; 3],
}

pub struct RunCfg {
    pub profile: String,
    pub mode: Mode,
    pub seed: u64,
    pub shard: u64,
    pub execs: u64,
    pub secs: f64,
    pub relevant: String,
}

fn gen_cfg(rng: &mut Rng, prof: &Profile, nthreads: usize, seed: u64) -> ExecCfg {
    let policy = match rng.below(10) {
        0..=4 => {
            let (num, den) = *rng.pick(&[(1u64, 2u64), (1, 5), (1, 20), (1, 3)]);
            Policy::Rand { num, den }
        }
        5..=8 => Policy::Pct {
            depth: rng.range(1, 5) as u32,
            est_len: rng.range(200, 4000),
        },
        _ => Policy::Coop,
    };
    let mut stalls = Vec::new();
    let ns = *rng.pick(&[0usize, 1, 1, 1, 2, 2, 3]);
    for _ in 0..ns {
        let site = *rng.pick(&prof.stall_sites);
        stalls.push(Stall {
            thread: if rng.chance(1, 2) { ANY } else { rng.below(nthreads as u64) as u32 },
            site,
            kth: rng.range(1, 4) as u32,
            max_steps: *rng.pick(&[30u64, 100, 300, 1000, 3000, 8000]),
            epochs: *rng.pick(&[0u64, 1, 2, 3, 3, 4, 4, 5, 6, 9]),
            when: None,
            repeat: false,
            until: None,
        });
    }
    ExecCfg {
        seed,
        policy,
        stalls,
        step_cap: 400_000,
    }
}

fn peek_fields(payload: usize) -> ([(usize, usize, usize); 2], (usize, usize, usize)) {
    let n = unsafe { &*(payload as *const VNode) };
    ([n.next[0].verif_peek(), n.next[1].verif_peek()], n.back.verif_peek())
}

static SCAN_SHARED: Mutex<Option<Arc<Shared>>> = Mutex::new(None);

/// M2 for cells: at the start of X's destruction no live cell may hold X.
fn scan_cells_on_destruct(id: u32, addr: usize) {
    let sh = match SCAN_SHARED.lock().unwrap().as_ref() {
        Some(s) => s.clone(),
        None => return,
    };
    mon::eval("cell-scan");
    for (i, r) in sh.roots.iter().enumerate() {
        if r.verif_peek().0 == addr {
            mon::violation(
                "C01",
                "C01|destruct-while-held-by-cell|root",
                format!("obj {}: destruction began while root cell {} holds it", id, i),
            );
        }
    }
    if sched::mode() == Mode::Serial || sched::mode() == Mode::Off {
        // fields of nodes whose destruction has not begun (exact under serialization)
        let n = mon::n_objs();
        for j in 1..n {
            let o = obj(j);
            if j == id || o.pop.load(SeqCst) != 0 || o.payload.load(SeqCst) == 0 {
                continue;
            }
            let (f, _) = peek_fields(o.payload.load(SeqCst));
            for k in 0..2 {
                if f[k].0 == addr {
                    mon::violation(
                        "C01",
                        "C01|destruct-while-held-by-cell|field",
                        format!("obj {}: destruction began while field {} of live obj {} holds it", id, k, j),
                    );
                }
            }
        }
    }
}

fn audit(sh: &Shared, phase: &str) {
    mon::eval("audit-counts");
    let n = mon::n_objs();
    // expected owners per address from live cells
    let mut strong: HashMap<usize, u32> = HashMap::new();
    let mut weak: HashMap<usize, u32> = HashMap::new();
    for r in &sh.roots {
        let a = r.verif_peek().0;
        if a != 0 {
            *strong.entry(a).or_insert(0) += 1;
        }
    }
    for r in &sh.wroots {
        let a = r.verif_peek().0;
        if a != 0 {
            *weak.entry(a).or_insert(0) += 1;
        }
    }
    for j in 1..n {
        let o = obj(j);
        if o.payload.load(SeqCst) == 0 || o.pop.load(SeqCst) != 0 {
            continue;
        }
        let (f, b) = peek_fields(o.payload.load(SeqCst));
        for k in 0..2 {
            if f[k].0 != 0 {
                *strong.entry(f[k].0).or_insert(0) += 1;
            }
        }
        if b.0 != 0 {
            *weak.entry(b.0).or_insert(0) += 1;
        }
    }
    for j in 1..n {
        let o = obj(j);
        let addr = o.addr.load(SeqCst);
        if addr == 0 {
            continue;
        }
        let (pop, drop_, de) = (o.pop.load(SeqCst), o.drop.load(SeqCst), o.dealloc.load(SeqCst));
        if de > 0 {
            if let Some(k) = strong.get(&addr) {
                // address reuse by a later object is possible; only flag if the map still says j
                if mon::id_of_addr(addr) == Some(j) {
                    mon::violation("C01", "C01|cell-holds-freed-object", format!("{}: obj {} freed but {} cell(s) hold it", phase, j, k));
                }
            }
            continue;
        }
        if mon::id_of_addr(addr) != Some(j) {
            continue;
        }
        let c = unsafe { circ::verif::counts_at::<VNode>(addr) };
        let es = strong.get(&addr).copied().unwrap_or(0);
        let ew = weak.get(&addr).copied().unwrap_or(0);
        if drop_ == 0 {
            if pop != 0 {
                mon::violation("C04", "C04|pop_edges-without-drop", format!("{}: obj {} pop_edges ran but destructor did not", phase, j));
            }
            if es == 0 {
                mon::violation(
                    "C04",
                    &format!("C04|leak-unowned-object{}", mon::bulk_tag(j as u32)),
                    format!("{}: obj {} has no owner left, nothing pending, but was never destructed (count word {:?})", phase, j, c),
                );
            }
            if c.strong != es {
                mon::violation(
                    "C04",
                    "C04|audit-strong-mismatch",
                    format!("{}: obj {} strong count {} but {} owning cell(s) (count word {:?})", phase, j, c.strong, es, c),
                );
            }
            if c.destructed {
                mon::violation("C01", "C01|destructed-flag-on-owned-object", format!("{}: obj {} owned by {} cells but DESTRUCTED", phase, j, es));
            }
            if c.weak != ew + 1 {
                mon::violation(
                    "C04",
                    "C04|audit-weak-mismatch",
                    format!("{}: live obj {} weak count {} but {} weak owner(s)+1 (count word {:?})", phase, j, c.weak, ew, c),
                );
            }
        } else {
            if es != 0 {
                mon::violation("C01", "C01|cell-holds-destructed-object", format!("{}: obj {} destructed but {} cell(s) hold it", phase, j, es));
            }
            if ew == 0 {
                mon::violation(
                    "C04",
                    "C04|leak-block",
                    format!("{}: obj {} destructed, no weak owner, nothing pending, but its block was never freed (count word {:?})", phase, j, c),
                );
            }
            if c.weak != ew {
                mon::violation(
                    "C04",
                    "C04|audit-weak-mismatch",
                    format!("{}: destructed obj {} weak count {} but {} weak owner(s) (count word {:?})", phase, j, c.weak, ew, c),
                );
            }
        }
    }
}

fn audit_final(phase: &str) {
    mon::eval("audit-final");
    let n = mon::n_objs();
    for j in 1..n {
        let o = obj(j);
        if o.addr.load(SeqCst) == 0 {
            continue;
        }
        let (pop, drop_, de) = (o.pop.load(SeqCst), o.drop.load(SeqCst), o.dealloc.load(SeqCst));
        if pop != 1 || drop_ != 1 || de != 1 {
            let c = if de == 0 { Some(unsafe { circ::verif::counts_at::<VNode>(o.addr.load(SeqCst)) }) } else { None };
            mon::violation(
                "C04",
                &format!("{}{}", if drop_ == 0 { "C04|leak-object-at-end" } else { "C04|leak-block-at-end" }, mon::bulk_tag(j as u32)),
                format!("{}: obj {} pop_edges={} drop={} dealloc={} after all handles were released and collection ran (count word {:?})", phase, j, pop, drop_, de, c),
            );
        }
    }
}

fn check_hist(ops: Vec<CellOp>, init: &dyn Fn(u64) -> Val, prop: &str, st: &mut BatchStats) -> bool {
    let mut by: HashMap<u64, Vec<CellOp>> = HashMap::new();
    for o in ops {
        by.entry(o.cell).or_default().push(o);
    }
    let mut overlapping = false;
    for (cell, ops) in by {
        mon::eval(if prop == "C08" { "cell-lin" } else { "weak-cell-lin" });
        st.lin_cells += 1;
        st.lin_ops += ops.len() as u64;
        if hist::overlapping_mutators(&ops) > 0 {
            overlapping = true;
        }
        let mut budget = 2_000_000u64;
        match hist::check_cell(init(cell), &ops, &mut budget) {
            LinResult::Ok => {}
            LinResult::Inconclusive => st.lin_inconclusive += 1,
            LinResult::Violation(s) => mon::violation(
                prop,
                &format!("{}|cell-history-not-linearizable", prop),
                format!("cell {:#x}: no linearization: {}", cell, s),
            ),
        }
    }
    overlapping
}

pub fn run_batch(cfg: &RunCfg) -> BatchStats {
    let prof = Arc::new(profile(&cfg.profile));
    let mut st = BatchStats {
        site_hits: vec![0; sched::NSITE],
        site_preempt: vec![0; sched::NSITE],
        ..Default::default()
    };
    sched::set_mode(Mode::Off);
    *mon::ON_DESTRUCT.lock().unwrap() = Some(scan_cells_on_destruct);
    // the default collector is created here, on the controller thread
    churn(2);
    let t0 = Instant::now();
    let mut idx = 0u64;
    while idx < cfg.execs && t0.elapsed().as_secs_f64() < cfg.secs {
        let eseed = mix(mix(cfg.seed, cfg.shard), idx);
        run_one(cfg, &prof, eseed, idx, &mut st);
        idx += 1;
    }
    *mon::ON_DESTRUCT.lock().unwrap() = None;
    st
}

fn run_one(cfg: &RunCfg, prof: &Arc<Profile>, eseed: u64, idx: u64, st: &mut BatchStats) {
    let mut rng = Rng::new(eseed);
    sched::set_mode(Mode::Off);
    // start from a drained collector
    if drain(400).is_none() {
        mon::violation("C04", "C04|garbage-not-reclaimed-within-bound", "left-over garbage before an execution could not be reclaimed in 400 rounds".into());
    }
    mon::reset_objs();
    let preroll = if cfg!(miri) { rng.below(3) as usize } else { rng.below(16) as usize };
    churn(preroll);
    let nthreads = rng.range(prof.threads.0 as u64, prof.threads.1 as u64) as usize;
    // shared state + prefill
    let mut root_init = Vec::new();
    let mut wroot_init = Vec::new();
    let mut pool: Vec<(Weak<VNode>, u32)> = Vec::new();
    let roots: Vec<AtomicRc<VNode>> = (0..prof.nroots).map(|_| AtomicRc::null()).collect();
    let wroots: Vec<AtomicWeak<VNode>> = (0..prof.nwroots).map(|_| AtomicWeak::null()).collect();
    {
        let g = circ::cs();
        let mut firsts: Vec<(Weak<VNode>, u32)> = Vec::new();
        for r in roots.iter() {
            if rng.below(16) < prof.prefill as u64 {
                let (rc, id) = if !firsts.is_empty() && rng.chance(1, 3) {
                    // a second strong owner of a node that already hangs in another structure
                    let k = rng.below(firsts.len() as u64) as usize;
                    (firsts[k].0.upgrade().unwrap(), Some(firsts[k].1))
                } else {
                    build_prefill(&mut rng, prof, &g, &mut firsts)
                };
                let rc = if prof.tags { rc.with_tag(rng.below(8) as usize) } else { rc };
                root_init.push((id.unwrap_or(0), rc.tag() as u8));
                r.store(rc, SeqCst, &g);
            } else {
                root_init.push((0, 0));
            }
        }
        for wr in wroots.iter() {
            if !firsts.is_empty() && rng.chance(2, 3) {
                let k = rng.below(firsts.len() as u64) as usize;
                let w = firsts[k].0.clone();
                let w = if prof.tags { w.with_tag(rng.below(8) as usize) } else { w };
                wroot_init.push((firsts[k].1, w.tag() as u8));
                wr.store(w, SeqCst, &g);
            } else {
                wroot_init.push((0, 0));
            }
        }
        pool = firsts;
    }
    // initial contents of the field cells of the prefilled nodes (for the cell histories)
    let mut field_init: HashMap<u64, Val> = HashMap::new();
    let mut wfield_init: HashMap<u64, Val> = HashMap::new();
    if prof.record_cells || prof.record_wcells {
        for j in 1..mon::n_objs() {
            let pl = obj(j).payload.load(SeqCst);
            if pl == 0 {
                continue;
            }
            let (f, b) = peek_fields(pl);
            for k in 0..2 {
                if f[k].0 != 0 {
                    field_init.insert((1 << 32) | ((j as u64) << 1) | k as u64, (mon::id_of_addr(f[k].0).unwrap_or(0), f[k].1 as u8));
                }
            }
            if b.0 != 0 {
                wfield_init.insert((1 << 32) | j as u64, (mon::id_of_addr(b.0).unwrap_or(0), b.1 as u8));
            }
        }
    }
    // age the links
    let age = if cfg!(miri) { *rng.pick(&[0usize, 3, 4]) } else { *rng.pick(&[0usize, 0, 1, 2, 3, 4, 5, 8, 13, 20]) };
    // while the links age, some nodes get a stamp from a non-final decrement
    for _ in 0..age {
        churn(1);
        if !pool.is_empty() && rng.chance(1, 3) {
            let k = rng.below(pool.len() as u64) as usize;
            drop(pool[k].0.upgrade());
        }
    }
    if !pool.is_empty() && rng.chance(1, 3) {
        let k = rng.below(pool.len() as u64) as usize;
        drop(pool[k].0.upgrade());
    }
    drop(pool);
    let sh = Arc::new(Shared {
        roots,
        wroots,
        root_init,
        wroot_init,
        cell_hist: Mutex::new(Vec::new()),
        wcell_hist: Mutex::new(Vec::new()),
        flags: Flags::default(),
        upgrades: [const { AtomicU64::new(0) }; 4],
    });
    *SCAN_SHARED.lock().unwrap() = Some(sh.clone());
    let residue = circ::verif::global_epoch() % 16;
    st.residues[residue] += 1;
    let ecfg = gen_cfg(&mut rng, prof, nthreads + prof.churn_thread as usize, eseed);
    let desc = J::obj()
        .set("profile", prof.name)
        .set("mode", format!("{:?}", cfg.mode))
        .set("seed", cfg.seed)
        .set("shard", cfg.shard)
        .set("index", idx)
        .set("exec_seed", eseed)
        .set("threads", nthreads)
        .set("policy", format!("{:?}", ecfg.policy))
        .set("stalls", J::A(ecfg.stalls.iter().map(|s| J::S(format!("t={} site={} k={} max_steps={} epochs={}", if s.thread == ANY { "any".to_string() } else { s.thread.to_string() }, S::name(s.site), s.kth, s.max_steps, s.epochs))).collect()))
        .set("preroll", preroll)
        .set("link_age", age)
        .set("epoch_residue", residue);
    mon::set_ctx(&cfg.profile, desc.clone(), nthreads + 1);
    let mut bodies: Vec<Box<dyn FnOnce() + Send>> = Vec::new();
    let ops_total = Arc::new(AtomicU64::new(0));
    let role_shift = rng.below(8) as usize;
    let mut ecfg = ecfg;
    let first_worker = if prof.choreo {
        CH_TARGET.store(usize::MAX, SeqCst);
        CH_DONE.store(0, SeqCst);
        CH_LATE.store(0, SeqCst);
        CH_NLATE.store((nthreads - 1) as u64, SeqCst);
        let site = *rng.pick(&prof.stall_sites);
        ecfg.policy = Policy::Rand { num: 1, den: *rng.pick(&[8u64, 30, 100, 300]) };
        ecfg.stalls.insert(0, Stall { thread: 0, site, kth: 1, max_steps: 200_000, epochs: 0, when: Some(ch_when), repeat: false, until: Some(ch_until) });
        let sh2 = sh.clone();
        let which = rng.below(sh.roots.len() as u64) as usize;
        let extra_rounds = rng.range(8, 16) as usize;
        let revive = prof.choreo_weak_revive;
        if revive {
            // a destructed object, weak count 1 -> 0 (try_dealloc pending) -> revived -> republished
            let (x, xid) = new_node(3);
            let w = x.downgrade();
            drop(x);
            if drain(200).is_none() {
                mon::harness_error("weak-revive setup: cannot drain");
            }
            let delay = rng.below(3) as usize;
            {
                let g = circ::cs();
                sh.wroots[0].store(w, SeqCst, &g);
                let ws = sh.wroots[0].load(SeqCst, &g);
                sh.wroots[0].store(Weak::null(), SeqCst, &g);
                let w2 = ws.counted();
                sh.wroots[0].store(w2, SeqCst, &g);
                g.flush();
                let _ = xid;
            }
            CH_TARGET.store(circ::verif::global_epoch() + 2 - delay.min(1), SeqCst);
        }
        bodies.push(Box::new(move || {
            if revive {
                mon::oplog(0, format!("(weak root 0 holds a revived Weak of a destructed object; try_dealloc pending) churn x{} with a stall once it is due", extra_rounds));
                churn(extra_rounds);
                CH_DONE.store(1, SeqCst);
                return;
            }
            {
                let g = circ::cs();
                mon::oplog(0, format!("Root({}).store(null)  (release); then churn x{} with a stall once the release is due", which, extra_rounds));
                sh2.roots[which].store(Rc::null(), SeqCst, &g);
            }
            CH_TARGET.store(circ::verif::global_epoch() + 3, SeqCst);
            churn(extra_rounds);
            CH_DONE.store(1, SeqCst);
        }));
        1
    } else {
        0
    };
    for t in first_worker..nthreads {
        let sh2 = sh.clone();
        let prof2 = prof.clone();
        let role = if prof.roles.is_empty() { None } else { Some((t + role_shift) % prof.roles.len()) };
        let (lo, hi) = match role {
            Some(r) => prof.roles[r].ops,
            None => prof.ops,
        };
        let nops = rng.range(lo as u64, hi as u64);
        let tseed = mix(eseed, 1000 + t as u64);
        let ot = ops_total.clone();
        let choreo = prof.choreo;
        bodies.push(Box::new(move || {
            let mut th = T::new(t as u32, tseed, sh2, prof2, role);
            if choreo {
                // late workers start once the collector is held with the release due
                sched::block_on(ch_start, 0, 0);
            }
            for _ in 0..nops {
                th.step();
            }
            if choreo {
                // keep guards and snapshots until the collector has finished
                CH_LATE.fetch_add(1, SeqCst);
                sched::block_on(ch_done, 0, 0);
                th.deref_all();
            }
            th.finish();
            ot.fetch_add(th.nops, Relaxed);
        }));
    }
    if prof.churn_thread {
        let k = if cfg!(miri) { rng.range(2, 6) } else { rng.range(3, 24) };
        bodies.push(Box::new(move || {
            // keeps the epoch moving while another worker is held at a stall rule
            let mut left = k;
            let mut extra = if cfg!(miri) { 8u32 } else { 120u32 };
            loop {
                if left > 0 {
                    left -= 1;
                } else if extra > 0 && sched::stall_active() {
                    extra -= 1;
                } else {
                    break;
                }
                let g = circ::cs();
                g.flush();
                drop(g);
            }
        }));
    }
    if cfg.mode == Mode::Parallel {
        let site = if rng.chance(2, 3) { Some(*rng.pick(&prof.stall_sites)) } else { None };
        sched::par_config(site, *rng.pick(&[50u32, 200, 1000, 3000]), rng.range(1, 4) as u32);
    }
    sched::set_mode(cfg.mode);
    let es = sched::run_exec(ecfg, bodies);
    sched::set_mode(Mode::Off);
    // ---- quiescence: audits --------------------------------------------------------------------
    let nobj = mon::n_objs() as usize;
    let bound = 300 + nobj / 8;
    let r1 = match drain(bound) {
        Some(r) => r,
        None => mon::violation(
            "C04",
            "C04|garbage-not-reclaimed-within-bound",
            format!("{} reference-counting deferrals still pending after {} collection rounds", mon::RC_PENDING.load(SeqCst), bound),
        ),
    };
    audit(&sh, "after-workers");
    // histories
    let mut overlapping = false;
    if prof.record_cells {
        let ops = std::mem::take(&mut *sh.cell_hist.lock().unwrap());
        let ri = sh.root_init.clone();
        overlapping |= check_hist(ops, &|c| if c < (1 << 32) { ri[c as usize] } else { field_init.get(&c).copied().unwrap_or((0, 0)) }, "C08", st);
    }
    if prof.record_wcells {
        let ops = std::mem::take(&mut *sh.wcell_hist.lock().unwrap());
        let ri = sh.wroot_init.clone();
        overlapping |= check_hist(ops, &|c| if c < (1 << 32) { ri[c as usize] } else { wfield_init.get(&c).copied().unwrap_or((0, 0)) }, "C09", st);
    }
    // release the roots
    {
        let g = circ::cs();
        for r in &sh.roots {
            r.store(Rc::null(), SeqCst, &g);
        }
        for r in &sh.wroots {
            r.store(Weak::null(), SeqCst, &g);
        }
    }
    let r2 = match drain(bound) {
        Some(r) => r,
        None => mon::violation(
            "C04",
            "C04|garbage-not-reclaimed-within-bound",
            format!("{} reference-counting deferrals still pending after {} collection rounds (roots released)", mon::RC_PENDING.load(SeqCst), bound),
        ),
    };
    audit_final("after-roots-released");
    *SCAN_SHARED.lock().unwrap() = None;
    st.audit_rounds_max = st.audit_rounds_max.max(r1).max(r2);
    // ---- statistics ----------------------------------------------------------------------------
    st.execs += 1;
    mon::EXECS_DONE.fetch_add(1, SeqCst);
    st.cut += es.cut as u64;
    st.steps += es.steps;
    st.switches += es.switches;
    st.ops += ops_total.load(Relaxed);
    st.objs += nobj as u64 - 1;
    for i in 0..sched::NSITE {
        st.site_hits[i] += es.site_hits[i];
        st.site_preempt[i] += es.site_preempt[i];
    }
    for (site, steps, eps, why) in &es.stalls_fired {
        st.stalls.inc(&format!("{}|released-by-{}", S::name(*site), why));
        if *eps >= 3 {
            st.stalls.inc("stalled>=3-epochs");
        }
        let _ = steps;
    }
    // relevance flags
    let mut f_shared_destruct = false;
    let mut f_snap_destruct = false;
    let mut f_weak_dealloc = false;
    let mut f_cascade = false;
    let mut f_any_destruct = false;
    for j in 1..nobj as u32 {
        let o = obj(j);
        let td = o.td.load(Relaxed);
        let depth = o.depth.load(Relaxed);
        if o.pop.load(Relaxed) > 0 {
            f_any_destruct = true;
            if depth > 1 {
                f_cascade = true;
                st.destructs.inc("child");
            } else {
                st.destructs.inc("root");
            }
        }
        if td > 1 {
            st.destructs.inc("re-deferred-attempts");
        }
        if o.touched.load(Relaxed).count_ones() >= 2 && (td > 0 || depth > 1) {
            f_shared_destruct = true;
        }
        if o.had_snap.load(Relaxed) && (td > 0 || depth > 1) {
            f_snap_destruct = true;
        }
        if o.had_weak.load(Relaxed) && o.dealloc.load(Relaxed) > 0 {
            f_weak_dealloc = true;
        }
    }
    let fl = &sh.flags;
    let flags: Vec<(&str, bool)> = vec![
        ("shared_destruct", f_shared_destruct),
        ("snap_destruct", f_snap_destruct),
        ("weak_dealloc", f_weak_dealloc),
        ("cascade", f_cascade),
        ("any_destruct", f_any_destruct),
        ("inc_from_zero", fl.inc_from_zero.load(Relaxed)),
        ("upgrade_race", fl.upgrade_race.load(Relaxed)),
        ("overlap_mutators", overlapping),
        ("cas_epoch_differs", fl.cas_epoch_differs.load(Relaxed)),
        ("wcas_epoch_differs", fl.wcas_epoch_differs.load(Relaxed)),
        ("epoch_advanced", true),
    ];
    let mut relevant = false;
    for (n, v) in &flags {
        if *v {
            st.flags.inc(n);
            if cfg.relevant.split(',').any(|r| r == *n) {
                relevant = true;
            }
        }
    }
    for k in 0..3 {
        st.upgrades[k] += sh.upgrades[k].load(Relaxed);
    }
    // distinctness: schedule hash in mode S; in mode P the hash of the op logs
    let oplogs = mon::take_oplogs();
    let h = if cfg.mode == Mode::Serial {
        es.hash
    } else {
        let mut h = eseed;
        for l in &oplogs {
            for s in l {
                for b in s.bytes() {
                    h = h.wrapping_mul(0x100000001b3) ^ b as u64;
                }
            }
        }
        h
    };
    st.hashes.insert(h);
    if relevant {
        mon::NONTRIVIAL_DONE.fetch_add(1, SeqCst);
        st.nontrivial_hashes.insert(h);
        if st.samples.len() < 3 {
            st.samples.push(
                desc.set("steps", es.steps).set("switches", es.switches).set(
                    "oplogs",
                    J::A(oplogs.iter().map(|l| J::A(l.iter().take(40).map(|s| J::S(s.clone())).collect())).collect()),
                ),
            );
        }
    }
}

pub fn summary(cfg: &RunCfg, st: &BatchStats, wall: f64) -> J {
    let mut sites = J::obj();
    let mut pre = J::obj();
    for i in 0..sched::NSITE {
        if st.site_hits[i] > 0 {
            sites.put(S::name(i as u16), st.site_hits[i]);
        }
        if st.site_preempt[i] > 0 {
            pre.put(S::name(i as u16), st.site_preempt[i]);
        }
    }
    J::obj()
        .set("type", "summary")
        .set("profile", cfg.profile.as_str())
        .set("mode", format!("{:?}", cfg.mode))
        .set("seed", cfg.seed)
        .set("shard", cfg.shard)
        .set("execs", st.execs)
        .set("inconclusive_cut", st.cut)
        .set("steps", st.steps)
        .set("switches", st.switches)
        .set("ops", st.ops)
        .set("objects", st.objs)
        .set("distinct", st.hashes.len())
        .set("nontrivial_hashes", J::A(st.nontrivial_hashes.iter().map(|h| J::S(format!("{:x}", h))).collect()))
        .set("flags", &st.flags)
        .set("site_hits", sites)
        .set("site_preempt", pre)
        .set("stalls", &st.stalls)
        .set("residues", J::A(st.residues.iter().map(|x| J::U(*x)).collect()))
        .set("destructs", &st.destructs)
        .set("upgrades_failed", st.upgrades[0])
        .set("upgrades_ok", st.upgrades[1])
        .set("upgrades_racing_destruct", st.upgrades[2])
        .set("lin_cells", st.lin_cells)
        .set("lin_ops", st.lin_ops)
        .set("lin_inconclusive", st.lin_inconclusive)
        .set("audit_rounds_max", st.audit_rounds_max)
        .set("events", mon::ev_counts_json())
        .set("monitor_evals", mon::evals_json())
        .set("par_delays", sched::PAR_DELAYS.load(Relaxed))
        .set("samples", J::A(st.samples.clone()))
        .set("wall_s", wall)
}
