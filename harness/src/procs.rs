//! Checks that need child processes: C07 (stack overflow aborts the process) and C20 (panics in
//! thread-local destructors abort the process).

use crate::json::{Counts, J};
use crate::mon::{self, report};
use crate::rcrun::churn;
use circ::{AtomicRc, AtomicWeak, Rc, RcObject, Weak};
use std::cell::RefCell;
use std::collections::HashSet;
use std::process::{Command, Stdio};
use std::sync::atomic::{AtomicUsize, Ordering::*};
use std::sync::Arc;
use std::time::{Duration, Instant};

// =============================================================================================
// C07

static DROPS: AtomicUsize = AtomicUsize::new(0);
static MIN_SP: AtomicUsize = AtomicUsize::new(usize::MAX);

pub struct SNode {
    next: [AtomicRc<SNode>; 2],
}
unsafe impl RcObject for SNode {
    fn pop_edges(&mut self, out: &mut Vec<Rc<Self>>) {
        out.push(self.next[0].take());
        out.push(self.next[1].take());
    }
}
impl Drop for SNode {
    fn drop(&mut self) {
        let marker = 0u8;
        let sp = &marker as *const u8 as usize;
        MIN_SP.fetch_min(sp, Relaxed);
        DROPS.fetch_add(1, Relaxed);
    }
}
pub struct Meta {
    _pad: u64,
    next: AtomicRc<Meta>,
}
unsafe impl RcObject for Meta {
    fn pop_edges(&mut self, out: &mut Vec<Rc<Self>>) {
        out.push(self.next.take());
    }
}
static META_DROPS: AtomicUsize = AtomicUsize::new(0);
impl Drop for Meta {
    fn drop(&mut self) {
        META_DROPS.fetch_add(1, Relaxed);
    }
}
/// A node with an edge of another type, which `pop_edges` cannot return: it is released by the
/// destructor, i.e. a decrement inside a running disposal.
pub struct HNode {
    hdr: Rc<Meta>,
    next: AtomicRc<HNode>,
}
unsafe impl RcObject for HNode {
    fn pop_edges(&mut self, out: &mut Vec<Rc<Self>>) {
        out.push(self.next.take());
    }
}
impl Drop for HNode {
    fn drop(&mut self) {
        let marker = 0u8;
        MIN_SP.fetch_min(&marker as *const u8 as usize, Relaxed);
        DROPS.fetch_add(1, Relaxed);
        let _ = &self.hdr;
    }
}

/// A node with a large payload (the recursion's frame must not grow with it).
pub struct FatNode {
    pad: [u8; 768],
    next: AtomicRc<FatNode>,
}
unsafe impl RcObject for FatNode {
    fn pop_edges(&mut self, out: &mut Vec<Rc<Self>>) {
        out.push(self.next.take());
    }
}
impl Drop for FatNode {
    fn drop(&mut self) {
        let marker = 0u8;
        MIN_SP.fetch_min(&marker as *const u8 as usize, Relaxed);
        DROPS.fetch_add(1, Relaxed);
        std::hint::black_box(&self.pad);
    }
}

/// A wide object whose buckets are edges of another type (released by its destructor).
pub struct Table {
    buckets: Vec<AtomicRc<SNode>>,
    next: AtomicRc<Table>,
}
unsafe impl RcObject for Table {
    fn pop_edges(&mut self, out: &mut Vec<Rc<Self>>) {
        out.push(self.next.take());
    }
}
impl Drop for Table {
    fn drop(&mut self) {
        DROPS.fetch_add(1, Relaxed);
        let _ = self.buckets.len();
    }
}

/// A thread releases a wide structure, collects a few times and exits while thousands of bags are
/// still queued; the main thread finishes the reclamation.
fn wide_exit_child(n: usize, stack: usize) {
    let h = std::thread::Builder::new()
        .stack_size(stack)
        .spawn(move || {
            let t = {
                let g = circ::cs();
                let buckets: Vec<AtomicRc<SNode>> = (0..n).map(|_| AtomicRc::from(snode())).collect();
                let _ = &g;
                Rc::new(Table { buckets, next: AtomicRc::null() })
            };
            churn(4);
            drop(t);
            churn(8);
        })
        .expect("spawn");
    let joined = h.join().is_ok();
    let total = n + 1;
    let bound = 400 + total / 4;
    let mut rounds = 0;
    while DROPS.load(SeqCst) < total && rounds < bound {
        churn(1);
        rounds += 1;
    }
    println!(
        "{}",
        J::obj().set("type", "c07child").set("n", total).set("drops", if joined { DROPS.load(SeqCst) } else { 0 }).set("rounds", rounds).set("peak_stack", 0u64).to_string()
    );
}

fn fat_child(n: usize, stack: usize) {
    let h = std::thread::Builder::new()
        .stack_size(stack)
        .spawn(move || {
            let base_marker = 0u8;
            let base = &base_marker as *const u8 as usize;
            let head = {
                let g = circ::cs();
                let mut head: Rc<FatNode> = Rc::null();
                for i in 0..n {
                    let nd = Rc::new(FatNode { pad: [i as u8; 768], next: AtomicRc::null() });
                    nd.as_ref().unwrap().next.store(head, SeqCst, &g);
                    head = nd;
                }
                head
            };
            churn(8);
            drop(head);
            let bound = 40 * (2 + n / 1024) + 300;
            let mut rounds = 0;
            while DROPS.load(SeqCst) < n && rounds < bound {
                churn(1);
                rounds += 1;
            }
            let peak = base.saturating_sub(MIN_SP.load(SeqCst));
            println!("{}", J::obj().set("type", "c07child").set("n", n).set("drops", DROPS.load(SeqCst)).set("rounds", rounds).set("peak_stack", peak).to_string());
        })
        .expect("spawn");
    let _ = h.join();
}

/// A long chain destroyed on a small stack while other threads keep touching the count words of the nodes the
/// cascade is about to reach (`Weak::clone`/`drop`, or `Weak::upgrade` + drop): every lost race inside the
/// cascade must not cost additional stack.
fn traffic_child(n: usize, stack: usize, upgrade: bool) {
    use std::sync::atomic::AtomicBool;
    static STOP: AtomicBool = AtomicBool::new(false);
    let mut weaks: Vec<Weak<SNode>> = Vec::with_capacity(n);
    let head = {
        let g = circ::cs();
        let mut head: Rc<SNode> = Rc::null();
        for _ in 0..n {
            let nd = snode();
            nd.as_ref().unwrap().next[0].store(head, SeqCst, &g);
            weaks.push(nd.downgrade());
            head = nd;
        }
        head
    };
    // weaks[i] = the node destructed i-th
    weaks.reverse();
    let weaks = Arc::new(weaks);
    churn(8);
    let mut attackers = Vec::new();
    for a in 0..3usize {
        let w = weaks.clone();
        attackers.push(std::thread::spawn(move || {
            let mut touched = 0u64;
            let mut last = usize::MAX;
            while !STOP.load(SeqCst) {
                let d = DROPS.load(Relaxed);
                if upgrade {
                    // an upgrade re-stamps its target, which makes the cascade wait a grace period there: one sweep
                    // per observed position keeps the destruction going
                    if d == last {
                        // an idle thread would sit on whatever landed in its local bag: keep taking part in collection
                        circ::cs().flush();
                        std::thread::yield_now();
                        continue;
                    }
                    last = d;
                }
                for j in (d + 1 + a)..(d + 48).min(w.len()) {
                    if upgrade {
                        drop(w[j].upgrade());
                    } else {
                        drop(w[j].clone());
                    }
                    touched += 1;
                }
                if upgrade {
                    // hand over what this sweep retired (an idle thread would keep it in its local bag)
                    circ::cs().flush();
                }
            }
            touched
        }));
    }
    let h = std::thread::Builder::new()
        .stack_size(stack)
        .spawn(move || {
            drop(head);
            let t0 = Instant::now();
            let mut rounds = 0usize;
            while DROPS.load(SeqCst) < n && t0.elapsed() < Duration::from_secs(100) {
                churn(1);
                rounds += 1;
            }
            if DROPS.load(SeqCst) < n {
                // wall-clock cap: inconclusive, never a violation
                println!("{}", J::obj().set("type", "c07child-timeout").to_string());
            }
            rounds
        })
        .expect("spawn");
    let rounds = h.join();
    STOP.store(true, SeqCst);
    let mut touched = 0;
    for a in attackers {
        touched += a.join().unwrap_or(0);
    }
    let rounds = match rounds {
        Ok(r) => r,
        Err(_) => return,
    };
    // stragglers revived by the attackers are released now
    let mut r = 0;
    while DROPS.load(SeqCst) < n && r < 2000 {
        churn(1);
        r += 1;
    }
    println!("{}", J::obj().set("type", "c07child").set("n", n).set("drops", DROPS.load(SeqCst)).set("rounds", rounds).set("peak_stack", 0u64).set("touched", touched).to_string());
}

fn backlog_child(lists: usize, len: usize, stack: usize) {
    use std::sync::atomic::AtomicBool;
    static PINNED: AtomicBool = AtomicBool::new(false);
    static RETIRED: AtomicBool = AtomicBool::new(false);
    static DONE: AtomicBool = AtomicBool::new(false);
    static UNPINNED: AtomicBool = AtomicBool::new(false);
    let reader = std::thread::spawn(|| {
        let g = circ::cs();
        PINNED.store(true, SeqCst);
        while !RETIRED.load(SeqCst) {
            std::thread::yield_now();
        }
        drop(g);
        UNPINNED.store(true, SeqCst);
        let mut it = 0u64;
        while !DONE.load(SeqCst) && std::env::var("C07_NOREADER").is_err() {
            let g = circ::cs();
            drop(g);
            std::thread::yield_now();
            it += 1;
        }
        if std::env::var("C07_DEBUG").is_ok() {
            let g = circ::cs();
            eprintln!("reader iterations {} state {:?}", it, circ::verif::local_state(&g));
        }
    });
    let total = lists * len;
    let h = std::thread::Builder::new()
        .stack_size(stack)
        .spawn(move || {
            let base_marker = 0u8;
            let base = &base_marker as *const u8 as usize;
            while !PINNED.load(SeqCst) {
                std::thread::yield_now();
            }
            for _ in 0..lists {
                let hdr = Rc::new(Meta { _pad: 7, next: AtomicRc::null() });
                let mut head: Rc<HNode> = Rc::null();
                {
                    let g = circ::cs();
                    for _ in 0..len {
                        let nd = Rc::new(HNode { hdr: hdr.clone(), next: AtomicRc::null() });
                        nd.as_ref().unwrap().next.store(head, SeqCst, &g);
                        head = nd;
                    }
                }
                drop(hdr);
                drop(head);
                let g = circ::cs();
                g.flush();
            }
            RETIRED.store(true, SeqCst);
            // rounds are counted only once the reader has left its long critical section
            while !UNPINNED.load(SeqCst) {
                std::thread::yield_now();
            }
            let e_retired = circ::verif::global_epoch();
            let bound = 40 * (2 + total / 1024) + 2000;
            let mut rounds = 0;
            while (DROPS.load(SeqCst) < total || META_DROPS.load(SeqCst) < lists) && rounds < bound {
                churn(1);
                rounds += 1;
            }
            DONE.store(true, SeqCst);
            if std::env::var("C07_DEBUG").is_ok() {
                let g = circ::cs();
                eprintln!("epoch at retire {} now {} local {:?} meta_drops {}", e_retired, circ::verif::global_epoch(), circ::verif::local_state(&g), META_DROPS.load(SeqCst));
            }
            let peak = base.saturating_sub(MIN_SP.load(SeqCst));
            let ok = DROPS.load(SeqCst) == total && META_DROPS.load(SeqCst) == lists;
            println!(
                "{}",
                J::obj().set("type", "c07child").set("n", total).set("drops", if ok { total } else { DROPS.load(SeqCst).min(total - 1) }).set("rounds", rounds).set("peak_stack", peak).to_string()
            );
        })
        .expect("spawn");
    let _ = h.join();
    DONE.store(true, SeqCst);
    let _ = reader.join();
}

fn snode() -> Rc<SNode> {
    Rc::new(SNode { next: [AtomicRc::null(), AtomicRc::null()] })
}

pub fn c07_child(shape: &str, n: usize, stack: usize) {
    if shape == "backlog" {
        // n = lists * 1200
        return backlog_child(n / 1200, 1200, stack);
    }
    if shape == "fatchain" {
        return fat_child(n, stack);
    }
    if shape == "wide-exit" {
        return wide_exit_child(n, stack);
    }
    if shape == "chain-weak-traffic" || shape == "chain-upgrade-traffic" {
        return traffic_child(n, stack, shape == "chain-upgrade-traffic");
    }
    let shape = shape.to_string();
    let h = std::thread::Builder::new()
        .stack_size(stack)
        .spawn(move || {
            let base_marker = 0u8;
            let base = &base_marker as *const u8 as usize;
            let total;
            let head = {
                let g = circ::cs();
                match shape.as_str() {
                    "chain" => {
                        let mut head: Rc<SNode> = Rc::null();
                        for _ in 0..n {
                            let nd = snode();
                            nd.as_ref().unwrap().next[0].store(head, SeqCst, &g);
                            head = nd;
                        }
                        total = n;
                        head
                    }
                    "tree" => {
                        // complete binary tree with about n nodes, built level by level
                        let root = snode();
                        let mut level = vec![root.clone()];
                        let mut t = 1;
                        while t < n {
                            let mut next = Vec::new();
                            for p in &level {
                                for k in 0..2 {
                                    if t >= n {
                                        break;
                                    }
                                    let c = snode();
                                    next.push(c.clone());
                                    p.as_ref().unwrap().next[k].store(c, SeqCst, &g);
                                    t += 1;
                                }
                            }
                            level = next;
                        }
                        total = t;
                        root
                    }
                    "caterpillar" => {
                        // a spine whose nodes have a leaf as the first edge and the rest of the spine as the last
                        let mut head: Rc<SNode> = Rc::null();
                        let mut t = 0;
                        while t + 2 <= n {
                            let nd = snode();
                            nd.as_ref().unwrap().next[0].store(snode(), SeqCst, &g);
                            nd.as_ref().unwrap().next[1].store(head, SeqCst, &g);
                            head = nd;
                            t += 2;
                        }
                        total = t;
                        head
                    }
                    "comb" => {
                        // a long spine where every node also has a leaf child (wide and deep)
                        let mut head: Rc<SNode> = Rc::null();
                        let mut t = 0;
                        while t + 2 <= n {
                            let nd = snode();
                            nd.as_ref().unwrap().next[1].store(snode(), SeqCst, &g);
                            nd.as_ref().unwrap().next[0].store(head, SeqCst, &g);
                            head = nd;
                            t += 2;
                        }
                        total = t;
                        head
                    }
                    _ => {
                        // dag: a chain in which every node is referenced by its two predecessors
                        let mut a: Rc<SNode> = Rc::null();
                        let mut b: Rc<SNode> = Rc::null();
                        for _ in 0..n {
                            let nd = snode();
                            nd.as_ref().unwrap().next[0].store(a.clone(), SeqCst, &g);
                            nd.as_ref().unwrap().next[1].store(b, SeqCst, &g);
                            b = a;
                            a = nd;
                        }
                        drop(b);
                        total = n;
                        a
                    }
                }
            };
            churn(8);
            drop(head);
            let bound = 40 * (2 + total / 1024) + 300;
            let mut rounds = 0;
            while DROPS.load(SeqCst) < total && rounds < bound {
                churn(1);
                rounds += 1;
            }
            let peak = base.saturating_sub(MIN_SP.load(SeqCst));
            println!(
                "{}",
                J::obj().set("type", "c07child").set("n", total).set("drops", DROPS.load(SeqCst)).set("rounds", rounds).set("peak_stack", peak).to_string()
            );
        })
        .expect("spawn");
    let _ = h.join();
}

fn build_name() -> &'static str {
    if cfg!(debug_assertions) {
        "debug"
    } else {
        "release"
    }
}

pub struct ProcOut {
    pub evaluations: u64,
    pub distinct: HashSet<String>,
    pub samples: Vec<J>,
    pub extra: J,
    pub inconclusive: u64,
}

fn run_child(args: &[String], timeout: Duration) -> (Option<i32>, Option<i32>, String, String, bool) {
    use std::os::unix::process::ExitStatusExt;
    let exe = std::env::current_exe().unwrap();
    let mut ch = Command::new(exe).args(args).stdout(Stdio::piped()).stderr(Stdio::piped()).spawn().expect("spawn child");
    let t0 = Instant::now();
    loop {
        match ch.try_wait() {
            Ok(Some(st)) => {
                let o = ch.wait_with_output().unwrap();
                return (
                    st.code(),
                    st.signal(),
                    String::from_utf8_lossy(&o.stdout).to_string(),
                    String::from_utf8_lossy(&o.stderr).to_string(),
                    false,
                );
            }
            Ok(None) => {
                if t0.elapsed() > timeout {
                    let _ = ch.kill();
                    let o = ch.wait_with_output().unwrap();
                    return (None, None, String::from_utf8_lossy(&o.stdout).to_string(), String::from_utf8_lossy(&o.stderr).to_string(), true);
                }
                std::thread::sleep(Duration::from_millis(5));
            }
            Err(_) => return (None, None, String::new(), String::new(), true),
        }
    }
}

fn field(s: &str, k: &str) -> Option<u64> {
    let pat = format!("\"{}\":", k);
    let i = s.find(&pat)? + pat.len();
    let rest = &s[i..];
    let end = rest.find(|c: char| !c.is_ascii_digit()).unwrap_or(rest.len());
    rest[..end].parse().ok()
}

pub fn c07(thorough: bool, shard: u64, nshards: u64) -> ProcOut {
    let mut out = ProcOut { evaluations: 0, distinct: HashSet::new(), samples: Vec::new(), extra: J::obj(), inconclusive: 0 };
    let b = build_name();
    // stack sizes that must survive, and smaller ones probed for the open finding (fixed recursion
    // cap of 1024 frames)
    let (must, probe): (Vec<usize>, Vec<usize>) = if b == "release" {
        (vec![256 << 10, 512 << 10, 2 << 20, 8 << 20], vec![64 << 10, 128 << 10])
    } else {
        (vec![1 << 20, 2 << 20, 8 << 20], vec![64 << 10, 128 << 10, 256 << 10, 512 << 10])
    };
    let mut cases: Vec<(&str, usize)> = vec![("chain", 2_000), ("chain", 100_000), ("tree", 65_535), ("comb", 100_000), ("caterpillar", 300_000), ("dag", 50_000), ("backlog", 720_000), ("fatchain", 20_000), ("wide-exit", 400_000), ("chain-weak-traffic", 400_000), ("chain-upgrade-traffic", 200_000)];
    if thorough {
        cases.push(("chain", 1_000_000));
        cases.push(("chain", 4_000_000));
        cases.push(("tree", 1 << 20));
        cases.push(("comb", 1_000_000));
        cases.push(("dag", 500_000));
        cases.push(("caterpillar", 2_000_000));
        cases.push(("backlog", 2_400_000));
        cases.push(("backlog", 6_000_000));
        cases.push(("fatchain", 200_000));
        cases.push(("wide-exit", 1_500_000));
    } else {
        cases.push(("chain", 1_000_000));
        cases.push(("backlog", 2_400_000));
    }
    let mut peaks = Counts::default();
    let mut idx = 0u64;
    for &(shape, n) in &cases {
        for (&stack, required) in must.iter().map(|s| (s, true)).chain(probe.iter().map(|s| (s, false))) {
            if !required && !(shape == "chain" && (n == 2_000 || n == 100_000)) {
                continue;
            }
            idx += 1;
            if idx % nshards != shard {
                continue;
            }
            let args: Vec<String> = ["c07child", "--shape", shape, "--n", &n.to_string(), "--stack", &stack.to_string()].iter().map(|s| s.to_string()).collect();
            let (code, sig, so, se, timed_out) = run_child(&args, Duration::from_secs(if thorough { 600 } else { 180 }));
            mon::eval("stack-survive");
            out.evaluations += 1;
            let key = format!("{}|{}|n={}|stack={}", b, shape, n, stack);
            out.distinct.insert(key.clone());
            if timed_out || so.contains("c07child-timeout") {
                out.inconclusive += 1;
                continue;
            }
            let overflow = sig.is_some() || se.contains("has overflowed its stack") || se.contains("stack overflow");
            if overflow {
                report(
                    "C07",
                    &format!("C07|stack-overflow|{}|stack={}|{}", b, stack, shape),
                    format!("{} build: destroying a {} of {} nodes on a thread with a {} KiB stack killed the process (signal {:?}): {}", b, shape, n, stack >> 10, sig, se.lines().last().unwrap_or("")),
                );
                continue;
            }
            if code != Some(0) {
                report("C07", &format!("C07|child-failed|{}|{}", b, shape), format!("child exit {:?}: {}", code, se.chars().take(400).collect::<String>()));
                continue;
            }
            let (nn, drops, peak) = (field(&so, "n").unwrap_or(0), field(&so, "drops").unwrap_or(0), field(&so, "peak_stack").unwrap_or(0));
            if drops != nn || nn == 0 {
                report("C07", &format!("C07|not-all-reclaimed|{}|{}", b, shape), format!("{} n={} stack={}: {} of {} nodes destructed", shape, n, stack, drops, nn));
            }
            let pk = format!("peak_stack|{}|n={}", shape, n);
            if peak > peaks.get(&pk) {
                peaks.0.insert(pk, peak);
            }
            if out.samples.len() < 4 {
                out.samples.push(J::obj().set("build", b).set("shape", shape).set("n", n).set("stack", stack).set("drops", drops).set("peak_stack_bytes", peak));
            }
        }
    }
    // flatness (shard 0): peak stack use must not grow with n, nor with the number of bags that are due at once
    if shard == 0 {
        for (shape, n1, n2, sig) in [("chain", 100_000usize, 1_000_000usize, "stack-grows-with-n"), ("backlog", 720_000, 2_400_000, "stack-grows-with-backlog")] {
            let mut pk = [0u64; 2];
            let mut ok = true;
            for (k, n) in [n1, n2].iter().enumerate() {
                let args: Vec<String> = ["c07child", "--shape", shape, "--n", &n.to_string(), "--stack", &(8usize << 20).to_string()].iter().map(|s| s.to_string()).collect();
                let (code, sig_, so, _se, timed_out) = run_child(&args, Duration::from_secs(180));
                mon::eval("stack-survive");
                out.evaluations += 1;
                if timed_out {
                    out.inconclusive += 1;
                    ok = false;
                    continue;
                }
                if code != Some(0) || sig_.is_some() {
                    ok = false; // reported by the main loop's case of the same shape
                    continue;
                }
                pk[k] = field(&so, "peak_stack").unwrap_or(0);
            }
            out.distinct.insert(format!("{}|flatness|{}", b, shape));
            if ok && pk[0] > 0 && pk[1] > pk[0] + pk[0] / 4 + 8192 {
                report("C07", &format!("C07|{}|{}", sig, b), format!("{}: peak stack {} bytes at n={} but {} bytes at n={}", shape, pk[0], n1, pk[1], n2));
            }
            peaks.0.insert(format!("flatness|{}|n={}", shape, n1), pk[0]);
            peaks.0.insert(format!("flatness|{}|n={}", shape, n2), pk[1]);
        }
    }
    out.extra = J::obj().set("build", b).set("peak_stack", &peaks);
    out
}

// =============================================================================================
// C20

static T_DROPS: AtomicUsize = AtomicUsize::new(0);
static T_DONE: AtomicUsize = AtomicUsize::new(0);

pub struct TNode {
    next: AtomicRc<TNode>,
    back: AtomicWeak<TNode>,
}
unsafe impl RcObject for TNode {
    fn pop_edges(&mut self, out: &mut Vec<Rc<Self>>) {
        out.push(self.next.take());
    }
}
impl Drop for TNode {
    fn drop(&mut self) {
        T_DROPS.fetch_add(1, SeqCst);
    }
}
fn tnode() -> Rc<TNode> {
    Rc::new(TNode { next: AtomicRc::null(), back: AtomicWeak::null() })
}

pub struct WideT {
    buckets: Vec<AtomicRc<TNode>>,
    next: AtomicRc<WideT>,
}
unsafe impl RcObject for WideT {
    fn pop_edges(&mut self, out: &mut Vec<Rc<Self>>) {
        out.push(self.next.take());
    }
}
impl Drop for WideT {
    fn drop(&mut self) {
        let _ = self.buckets.len();
    }
}

struct Shared20 {
    cell: AtomicRc<TNode>,
    wcell: AtomicWeak<TNode>,
}

struct TlsObj {
    case: u32,
    sh: Arc<Shared20>,
    held: RefCell<Option<(Rc<TNode>, Weak<TNode>)>>,
    created: std::cell::Cell<usize>,
}

pub const C20_CASES: [&str; 19] = [
    "cs", "nested-cs", "new-drop", "drop-captured", "cell-ops", "upgrade", "flush", "reactivate", "reactivate_after", "chain-drop", "defer-many", "cs-then-new-in-guard",
    "nested-reactivate", "body-nested-reactivate", "exit-with-backlog", "guard-flush-then-retire-more", "guard-retire-100", "guard-store-100", "first-use-race",
];

impl Drop for TlsObj {
    fn drop(&mut self) {
        let mut created = 0;
        match self.case {
            0 => {
                let _g = circ::cs();
            }
            1 => {
                let g1 = circ::cs();
                let g2 = circ::cs();
                let g3 = circ::cs();
                drop(g2);
                drop(g1);
                drop(g3);
            }
            2 => {
                let r = tnode();
                created += 1;
                drop(r);
            }
            3 => {
                let h = self.held.borrow_mut().take();
                drop(h);
            }
            4 => {
                let g = circ::cs();
                let s = self.sh.cell.load(SeqCst, &g);
                let n = tnode();
                created += 1;
                match self.sh.cell.compare_exchange(s, n, SeqCst, SeqCst, &g) {
                    Ok(old) => drop(old),
                    Err(e) => drop(e.desired),
                }
                let n2 = tnode();
                created += 1;
                self.sh.cell.store(n2, SeqCst, &g);
                let old = self.sh.cell.swap(Rc::null(), SeqCst);
                drop(old);
            }
            5 => {
                let g = circ::cs();
                let ws = self.sh.wcell.load(SeqCst, &g);
                let s = ws.upgrade();
                if let Some(s) = s {
                    let r = s.counted();
                    drop(r);
                }
                if let Some((_, w)) = self.held.borrow().as_ref() {
                    let _ = w.upgrade();
                }
            }
            6 => {
                let g = circ::cs();
                let r = tnode();
                created += 1;
                r.finalize(&g);
                g.flush();
            }
            7 => {
                let mut g = circ::cs();
                g.reactivate();
                let r = tnode();
                created += 1;
                drop(r);
                g.reactivate();
            }
            8 => {
                let mut g = circ::cs();
                let v = g.reactivate_after(|| {
                    let g2 = circ::cs();
                    g2.flush();
                    7
                });
                assert_eq!(v, 7);
            }
            9 => {
                // build and drop a chain
                let g = circ::cs();
                let mut head: Rc<TNode> = Rc::null();
                for _ in 0..300 {
                    let n = tnode();
                    created += 1;
                    n.as_ref().unwrap().next.store(head, SeqCst, &g);
                    head = n;
                }
                drop(g);
                drop(head);
            }
            10 => {
                for _ in 0..200 {
                    let r = tnode();
                    created += 1;
                    drop(r);
                }
            }
            12 => {
                // reactivation of one of two nested guards, then garbage that must be handed over
                let g1 = circ::cs();
                let mut g2 = circ::cs();
                g2.reactivate();
                let v = g2.reactivate_after(|| 5);
                assert_eq!(v, 5);
                drop(g1);
                g2.reactivate();
                drop(g2);
                for _ in 0..10 {
                    let r = tnode();
                    created += 1;
                    drop(r);
                }
            }
            13 | 14 | 18 => {
                for _ in 0..10 {
                    let r = tnode();
                    created += 1;
                    drop(r);
                }
            }
            15 => {
                // one guard: retire, flush (schedules a collection), retire more, leave
                let g = circ::cs();
                for _ in 0..5 {
                    let r = tnode();
                    created += 1;
                    r.finalize(&g);
                }
                g.flush();
                for _ in 0..5 {
                    let r = tnode();
                    created += 1;
                    r.finalize(&g);
                }
                drop(g);
            }
            16 => {
                // one guard, enough retirements through it to schedule a collection, and some more
                let g = circ::cs();
                for _ in 0..100 {
                    let r = tnode();
                    created += 1;
                    r.finalize(&g);
                }
                drop(g);
            }
            17 => {
                let g = circ::cs();
                let c = AtomicRc::<TNode>::null();
                for _ in 0..100 {
                    let r = tnode();
                    created += 1;
                    c.store(r, SeqCst, &g);
                }
                c.store(Rc::null(), SeqCst, &g);
                drop(g);
            }
            _ => {
                let g = circ::cs();
                let r = tnode();
                created += 1;
                let w = r.downgrade();
                r.as_ref().unwrap().back.store(w, SeqCst, &g);
                drop(r);
            }
        }
        self.created.set(created);
        CREATED.fetch_add(created, SeqCst);
        T_DONE.fetch_add(1, SeqCst);
    }
}
static CREATED: AtomicUsize = AtomicUsize::new(0);

thread_local! {
    static TLS_A: RefCell<Option<TlsObj>> = const { RefCell::new(None) };
    static TLS_B: RefCell<Option<TlsObj>> = const { RefCell::new(None) };
}

/// order: 0 = TLS object initialised before circ's handle (destroyed after it),
///        1 = after (destroyed before the handle), 2 = the thread never touches circ itself,
///        3 = two TLS objects, one on each side of the handle
pub fn c20_child(case: u32, order: u32, threads: usize, main_exit: bool) {
    let sh = Arc::new(Shared20 { cell: AtomicRc::null(), wcell: AtomicWeak::null() });
    let mut expected_extra = 0;
    // "first-use-race": nothing in the process has used the library when the threads enter their first
    // critical section together
    let race = case == 18;
    let threads = if race { threads.max(2) * 2 } else { threads };
    static GATE: AtomicUsize = AtomicUsize::new(0);
    if !race {
        let g = circ::cs();
        let n = tnode();
        expected_extra += 1;
        sh.wcell.store(n.downgrade(), SeqCst, &g);
        sh.cell.store(n, SeqCst, &g);
    }
    let mut hs = Vec::new();
    for tix in 0..threads {
        let sh2 = sh.clone();
        hs.push(std::thread::spawn(move || {
            if race {
                GATE.fetch_add(1, SeqCst);
                while GATE.load(SeqCst) < threads {
                    std::hint::spin_loop();
                }
                // the first calls are spread over a few hundred nanoseconds (the spread varies with `order`)
                for _ in 0..(tix * (4usize << order)) {
                    std::hint::spin_loop();
                }
                let g = circ::cs();
                let r = tnode();
                CREATED.fetch_add(1, SeqCst);
                r.finalize(&g);
                drop(g);
            }
            let mk = |sh: &Arc<Shared20>| {
                let r = tnode();
                CREATED.fetch_add(1, SeqCst);
                let w = r.downgrade();
                TlsObj { case, sh: sh.clone(), held: RefCell::new(Some((r, w))), created: std::cell::Cell::new(0) }
            };
            match order {
                0 => {
                    // the held Rc is created on this thread, which initialises circ's handle first;
                    // so create the object without touching circ and fill it afterwards
                    TLS_A.with(|t| *t.borrow_mut() = Some(TlsObj { case, sh: sh2.clone(), held: RefCell::new(None), created: std::cell::Cell::new(0) }));
                    let r = tnode();
                    CREATED.fetch_add(1, SeqCst);
                    let w = r.downgrade();
                    TLS_A.with(|t| *t.borrow().as_ref().unwrap().held.borrow_mut() = Some((r, w)));
                }
                1 => {
                    let _g = circ::cs();
                    drop(_g);
                    let o = mk(&sh2);
                    TLS_A.with(|t| *t.borrow_mut() = Some(o));
                }
                2 => {
                    TLS_A.with(|t| *t.borrow_mut() = Some(TlsObj { case, sh: sh2.clone(), held: RefCell::new(None), created: std::cell::Cell::new(0) }));
                }
                _ => {
                    TLS_A.with(|t| *t.borrow_mut() = Some(TlsObj { case, sh: sh2.clone(), held: RefCell::new(None), created: std::cell::Cell::new(0) }));
                    let o = mk(&sh2);
                    TLS_B.with(|t| *t.borrow_mut() = Some(o));
                }
            }
            if case == 14 && order != 2 {
                // the thread releases a wide structure and leaves while most of its garbage is still queued
                let n = 120_000;
                let buckets: Vec<AtomicRc<TNode>> = (0..n).map(|_| AtomicRc::from(tnode())).collect();
                CREATED.fetch_add(n, SeqCst);
                let t = Rc::new(WideT { buckets, next: AtomicRc::null() });
                churn(3);
                drop(t);
                churn(4);
            }
            if case == 13 && order != 2 {
                // the thread body reactivates nested guards, then leaves garbage behind
                let g1 = circ::cs();
                let mut g2 = circ::cs();
                g2.reactivate();
                let _ = g2.reactivate_after(|| 1);
                drop(g1);
                drop(g2);
                for _ in 0..10 {
                    let r = tnode();
                    CREATED.fetch_add(1, SeqCst);
                    drop(r);
                }
            }
            // some ordinary work
            for _ in 0..3 {
                if order != 2 {
                    let r = tnode();
                    CREATED.fetch_add(1, SeqCst);
                    drop(r);
                }
            }
        }));
    }
    if main_exit {
        // the main thread leaves with live handles of its own
        let keep = tnode();
        std::mem::forget(keep.clone());
        TLS_A.with(|t| *t.borrow_mut() = Some(TlsObj { case, sh: sh.clone(), held: RefCell::new(None), created: std::cell::Cell::new(0) }));
    }
    for h in hs {
        if h.join().is_err() {
            println!("{}", J::obj().set("type", "c20child").set("panicked", true).to_string());
            std::process::exit(7);
        }
    }
    // garbage of the dead threads is reclaimed by this one
    {
        let g = circ::cs();
        sh.cell.store(Rc::null(), SeqCst, &g);
        sh.wcell.store(Weak::null(), SeqCst, &g);
    }
    let expected = CREATED.load(SeqCst) + expected_extra;
    // bounded progress in rounds: a collection pops at most 16 bags, and a destructor that runs after
    // the thread's handle is gone produces one single-element bag per released object
    let bound = 400 + expected / 4;
    let mut rounds = 0;
    while T_DROPS.load(SeqCst) < expected && rounds < bound {
        churn(1);
        rounds += 1;
    }
    let tls_expected = threads * if order == 3 { 2 } else { 1 };
    println!(
        "{}",
        J::obj()
            .set("type", "c20child")
            .set("expected", expected)
            .set("drops", T_DROPS.load(SeqCst))
            .set("rounds", rounds)
            .set("tls_dtors", T_DONE.load(SeqCst))
            .set("tls_expected", tls_expected)
            .to_string()
    );
}

pub fn c20(thorough: bool, shard: u64, nshards: u64) -> ProcOut {
    let mut out = ProcOut { evaluations: 0, distinct: HashSet::new(), samples: Vec::new(), extra: J::obj(), inconclusive: 0 };
    let b = build_name();
    let mut by = Counts::default();
    let mut idx = 0u64;
    for case in 0..C20_CASES.len() as u32 {
        for order in 0..4u32 {
            for &threads in if thorough { &[1usize, 4, 32][..] } else { &[1usize, 6][..] } {
                for main_exit in [false, true] {
                    if main_exit && threads != 1 {
                        continue;
                    }
                    idx += 1;
                    if idx % nshards != shard {
                        continue;
                    }
                    let args: Vec<String> = vec![
                        "c20child".into(), "--case".into(), case.to_string(), "--order".into(), order.to_string(), "--threads".into(), threads.to_string(),
                        "--main-exit".into(), (main_exit as u32).to_string(),
                    ];
                    let (code, sig, so, se, timed_out) = run_child(&args, Duration::from_secs(60));
                    mon::eval("tls-child");
                    out.evaluations += 1;
                    let key = format!("{}|{}|order={}|threads={}|main_exit={}", b, C20_CASES[case as usize], order, threads, main_exit);
                    out.distinct.insert(key.clone());
                    if timed_out {
                        // wall-clock: inconclusive, never a verdict
                        out.inconclusive += 1;
                        by.inc("timed-out");
                        continue;
                    }
                    let ctx = format!("call={} tls-order={} build={}", C20_CASES[case as usize], ["before-handle", "after-handle", "no-other-use", "both-sides"][order as usize], b);
                    if sig.is_some() || code != Some(0) {
                        let first = se.lines().find(|l| l.contains("panicked") || l.contains("assertion") || l.contains("fatal")).unwrap_or("").to_string();
                        let at = se.lines().find(|l| l.contains("panicked at")).map(|l| l.split("panicked at ").nth(1).unwrap_or("").split(':').next().unwrap_or("").to_string()).unwrap_or_default();
                        report(
                            "C20",
                            &format!("C20|child-died|call={}|{}|{}", C20_CASES[case as usize], b, at.replace("/repo/", "")),
                            format!("{}: child exit {:?} signal {:?}: {} | {}", ctx, code, sig, first, se.lines().take(6).collect::<Vec<_>>().join(" / ")),
                        );
                        continue;
                    }
                    if se.contains("panicked") {
                        report("C20", &format!("C20|panic-message|call={}|{}", C20_CASES[case as usize], b), format!("{}: {}", ctx, se.lines().next().unwrap_or("")));
                    }
                    let (exp, drops, td, te) = (field(&so, "expected").unwrap_or(0), field(&so, "drops").unwrap_or(u64::MAX), field(&so, "tls_dtors").unwrap_or(0), field(&so, "tls_expected").unwrap_or(1));
                    if td < te {
                        report("C20", &format!("C20|tls-destructor-not-run|{}", b), format!("{}: {} of {} TLS destructors ran", ctx, td, te));
                    }
                    if drops != exp {
                        report(
                            "C20",
                            &format!("C20|garbage-of-dead-thread-not-reclaimed|call={}|{}", C20_CASES[case as usize], b),
                            format!("{}: {} of {} objects destructed after 400+n/4 rounds on the surviving thread", ctx, drops, exp),
                        );
                    }
                    by.inc("ok");
                    if out.samples.len() < 4 {
                        out.samples.push(J::obj().set("case", key).set("objects", exp).set("destructed", drops));
                    }
                }
            }
        }
    }
    out.extra = J::obj().set("build", b).set("children", &by);
    out
}

pub fn summary(name: &str, o: ProcOut, wall: f64) -> J {
    J::obj()
        .set("type", "summary")
        .set("profile", name)
        .set("mode", "child-processes")
        .set("execs", o.evaluations)
        .set("inconclusive_cut", o.inconclusive)
        .set("distinct", o.distinct.len())
        .set("nontrivial_hashes", J::A(o.distinct.iter().map(|h| J::S(h.clone())).collect()))
        .set("samples", J::A(o.samples))
        .set("detail", o.extra)
        .set("monitor_evals", mon::evals_json())
        .set("soft_violations", mon::SOFT_VIOLATIONS.load(SeqCst))
        .set("wall_s", wall)
}
