//! EBR-level monitors on private collectors (M6): C13 (deferred work vs guards active at deferral),
//! C14 (epoch clock), C15 (exactly-once closures), C16 (guard nesting / reactivation model).

use crate::json::{Counts, J};
use crate::mon;
use crate::rng::{mix, Rng};
use crate::sched::{self, ExecCfg, Mode, Policy, Stall, ANY};
use circ::verif::{self as V, site as S, Collector, LocalHandle};
use circ::Guard;
use std::collections::HashSet;
use std::sync::atomic::{AtomicBool, AtomicU64, AtomicU8, AtomicUsize, Ordering::*};
use std::sync::{Arc, Mutex};
use std::time::Instant;

const MAXC: usize = 1 << 16;
static EXEC: [AtomicU8; MAXC] = [const { AtomicU8::new(0) }; MAXC];
static NEXT_C: AtomicUsize = AtomicUsize::new(0);

#[derive(Clone, Copy)]
struct GRec {
    serial: u64,
    local: usize,
    wid: u32,
    announced: usize,
}
/// Guards registered as active: added after `pin` returned, removed before drop / reactivate.
static ACTIVE: Mutex<Vec<GRec>> = Mutex::new(Vec::new());
static SERIAL: AtomicU64 = AtomicU64::new(1);
static CUR_COLLECTOR: Mutex<Option<Collector>> = Mutex::new(None);
static LAST_GLOBAL: AtomicUsize = AtomicUsize::new(0);
static SAMPLES: AtomicU64 = AtomicU64::new(0);
static ADV_WITH_FOREIGN: AtomicU64 = AtomicU64::new(0);
static DEFER_WITH_FOREIGN: AtomicU64 = AtomicU64::new(0);
static RAN_CLOSURES: AtomicU64 = AtomicU64::new(0);
static C13_EVALS: AtomicU64 = AtomicU64::new(0);
static MODEL_EVALS: AtomicU64 = AtomicU64::new(0);

thread_local! {
    pub static EXPECT_PANIC: std::cell::Cell<bool> = const { std::cell::Cell::new(false) };
    /// the calling worker's own handle (0 = none), for closures that defer again when they run
    static CUR_HANDLE: std::cell::Cell<usize> = const { std::cell::Cell::new(0) };
}
static NESTED: AtomicU64 = AtomicU64::new(0);

fn reg(g: &Guard) -> u64 {
    let serial = SERIAL.fetch_add(1, SeqCst);
    let st = V::local_state(g).unwrap();
    ACTIVE.lock().unwrap().push(GRec { serial, local: st.local, wid: sched::wid(), announced: st.announced });
    serial
}
fn dereg(serial: u64) {
    let mut a = ACTIVE.lock().unwrap();
    if let Some(p) = a.iter().position(|r| r.serial == serial) {
        a.swap_remove(p);
    }
}

/// C14: runs under the scheduler lock at every yield point of a worker (mode S).
fn sampler(_wid: u32, _site: u16, _step: u64) {
    let c = CUR_COLLECTOR.lock().unwrap();
    let Some(c) = c.as_ref() else { return };
    let g = V::collector_epoch(c);
    SAMPLES.fetch_add(1, Relaxed);
    let last = LAST_GLOBAL.swap(g, SeqCst);
    if g < last {
        mon::observer_violation("C14", "C14|global-epoch-decreased", format!("global epoch went from {} to {}", last, g));
    }
    if g > last + 1 {
        mon::observer_violation("C14", "C14|global-epoch-skipped", format!("global epoch moved from {} to {} between two consecutive yield points", last, g));
    }
    let a = ACTIVE.lock().unwrap();
    for r in a.iter() {
        let (pinned, ann) = unsafe { V::local_epoch_of(r.local) };
        if !pinned {
            mon::observer_violation("C14", "C14|registered-guard-not-pinned", format!("participant of worker {} has a live guard (serial {}) but its pinned bit is clear", r.wid, r.serial));
        }
        if g < ann || g - ann > 1 {
            mon::observer_violation(
                "C14",
                "C14|pinned-participant-sees-more-than-one-advance",
                format!("worker {} is pinned at epoch {} (guard serial {}) but the global epoch is {}", r.wid, ann, r.serial, g),
            );
        }
        if g < r.announced || g - r.announced > 1 {
            mon::observer_violation(
                "C14",
                "C14|epoch-advanced-twice-within-critical-section",
                format!("worker {}: guard serial {} has been live since epoch {} (the participant never unpinned) but the global epoch is {}", r.wid, r.serial, r.announced, g),
            );
        }
        if ann != r.announced {
            mon::observer_violation(
                "C16",
                "C16|announced-epoch-moved-under-live-guard",
                format!("worker {}: announced epoch moved from {} to {} while guard serial {} is live", r.wid, r.announced, ann, r.serial),
            );
        }
    }
}

/// participant records of the current private collector: address -> freed?
static LOCALS: Mutex<Option<std::collections::HashMap<usize, bool>>> = Mutex::new(None);
static CUR_GLOBAL: AtomicUsize = AtomicUsize::new(0);

fn ev_hook(kind: u16, a: usize, _b: usize) {
    if kind == V::event::LOCAL_REGISTER {
        if CUR_GLOBAL.load(SeqCst) == 0 {
            CUR_GLOBAL.store(_b, SeqCst); // the first registration after the collector was created
        }
        if _b == CUR_GLOBAL.load(SeqCst) {
            LOCALS.lock().unwrap().get_or_insert_with(Default::default).insert(a, false);
        }
    }
    if kind == V::event::LOCAL_FREE {
        let mut g = LOCALS.lock().unwrap();
        if let Some(m) = g.as_mut() {
            if let Some(freed) = m.get_mut(&a) {
                mon::eval("participant-record");
                if *freed {
                    drop(g);
                    mon::observer_violation("C18", "C18|participant-record-freed-twice", format!("the record of a participant ({:#x}) was freed twice", a));
                    return;
                }
                *freed = true;
            }
        }
    }
    if kind == V::event::EPOCH_ADVANCE {
        // an advance while a foreign guard is registered (relevance for C13/C14)
        let me = sched::wid();
        let act = ACTIVE.lock().unwrap();
        if act.iter().any(|r| r.wid != me) {
            ADV_WITH_FOREIGN.fetch_add(1, Relaxed);
        }
        let _ = a;
    }
}

// ---------------------------------------------------------------------------------------------
// closures of several shapes

#[repr(align(32))]
#[derive(Clone, Copy)]
struct Al32([u8; 32]);
#[repr(align(64))]
#[derive(Clone, Copy)]
struct Al64([u8; 64]);

fn on_run(id: usize, set: &[u64], sum_ok: bool, shape: &str) {
    RAN_CLOSURES.fetch_add(1, Relaxed);
    mon::eval("closure-once");
    let prev = EXEC[id % MAXC].fetch_add(1, SeqCst);
    if prev != 0 {
        mon::violation("C15", "C15|closure-ran-twice", format!("deferred closure {} ({}) ran {} times", id, shape, prev + 1));
    }
    if !sum_ok {
        mon::violation("C15", &format!("C15|closure-capture-corrupt|{}", shape), format!("deferred closure {} ({}) found its captured data corrupted", id, shape));
    }
    // C13: no guard that was active at deferral may still be active
    mon::eval("c13-active-set");
    C13_EVALS.fetch_add(1, Relaxed);
    if !set.is_empty() {
        let act = ACTIVE.lock().unwrap();
        for s in set {
            if let Some(r) = act.iter().find(|r| r.serial == *s) {
                mon::violation(
                    "C13",
                    "C13|deferred-ran-under-guard-active-at-deferral",
                    format!("closure {} ran on worker {} while guard serial {} of worker {} (active when it was deferred, pinned at epoch {}) is still active", id, sched::wid(), s, r.wid, r.announced),
                );
            }
        }
    }
}

fn do_defer(g: &Guard, rng: &mut Rng) -> usize {
    let id = NEXT_C.fetch_add(1, SeqCst);
    if id >= MAXC {
        mon::harness_error("closure table exhausted");
    }
    let me = sched::wid();
    let set: Vec<u64> = {
        let a = ACTIVE.lock().unwrap();
        if a.iter().any(|r| r.wid != me) {
            DEFER_WITH_FOREIGN.fetch_add(1, Relaxed);
        }
        a.iter().map(|r| r.serial).collect()
    };
    let k = id as u64;
    unsafe {
        match rng.below(9) {
            0 => V::defer(g, move || on_run(id, &[], true, "zst-ish")),
            1 => {
                let set = set.into_boxed_slice();
                V::defer(g, move || on_run(id, &set, true, "2-words"))
            }
            2 => {
                let d = [k, k ^ 0x55, k.wrapping_mul(3)];
                V::defer(g, move || on_run(id, &set, d[0] == k && d[1] == k ^ 0x55 && d[2] == k.wrapping_mul(3), "6-words"))
            }
            3 => {
                let d = [k; 6];
                V::defer(g, move || on_run(id, &set, d.iter().all(|x| *x == k), "9-words-boxed"))
            }
            4 => {
                let d: u128 = ((k as u128) << 64) | 0xABCD;
                let set = set.into_boxed_slice();
                V::defer(g, move || on_run(id, &set, d == ((k as u128) << 64) | 0xABCD, "align16"))
            }
            5 => {
                let d = Al32([k as u8; 32]);
                V::defer(g, move || on_run(id, &set, d.0.iter().all(|x| *x == k as u8), "align32"))
            }
            6 => {
                let d = Al64([k as u8; 64]);
                V::defer(g, move || on_run(id, &set, d.0.iter().all(|x| *x == k as u8), "align64"))
            }
            7 => {
                let d = (k as u8, k as u16);
                let set = set.into_boxed_slice();
                V::defer(g, move || on_run(id, &set, d.0 == k as u8 && d.1 == k as u16, "small-ints"))
            }
            _ => {
                let s = format!("closure-{}", k);
                V::defer(g, move || on_run(id, &set, s == format!("closure-{}", k), "string+vec"))
            }
        }
    }
    id
}

// ---------------------------------------------------------------------------------------------
// per-thread interpreter

struct GSlot {
    g: Option<Guard>,
    serial: u64,
}

struct ET {
    t: u32,
    rng: Rng,
    collector: Collector,
    handle: Option<LocalHandle>,
    extra: Option<LocalHandle>,
    guards: Vec<GSlot>,
    weights: Vec<u32>,
}

const OPS: [&str; 14] = [
    "pin", "unpin", "reactivate", "reactivate_after", "defer", "flush", "collect", "try_advance", "defer-burst", "extra-handle", "drop-extra-handle",
    "reactivate_after-panic", "drop-handle-keep-guards", "defer-nesting",
];

impl ET {
    fn live(&self) -> Vec<usize> {
        (0..self.guards.len()).filter(|&i| self.guards[i].g.is_some()).collect()
    }
    fn lg(&self, s: String) {
        mon::oplog(self.t, s);
    }
    /// C16: the three-line model, checked through the private state of the participant.
    fn check_model(&self, what: &str) {
        let n = self.live().len();
        let st = match self.handle.as_ref() {
            Some(h) => V::handle_state(h),
            None => {
                // the handle is gone; a live guard keeps the participant alive and registered
                let Some(&s) = self.live().first() else { return };
                V::local_state(self.guards[s].g.as_ref().unwrap()).unwrap()
            }
        };
        MODEL_EVALS.fetch_add(1, Relaxed);
        mon::eval("guard-model");
        if st.guard_count != n {
            mon::observer_violation("C16", "C16|guard-count-mismatch", format!("after {}: {} live guards but guard_count={}", what, n, st.guard_count));
        }
        if st.pinned != (n > 0) {
            mon::observer_violation(
                "C16",
                &format!("C16|pinned-state-mismatch|after={}", what.split(' ').next().unwrap_or("")),
                format!("after {}: {} live guards but pinned={} (announced {})", what, n, st.pinned, st.announced),
            );
        }
        if n > 0 {
            // announced epoch is what the guards registered
            let a = ACTIVE.lock().unwrap();
            for r in a.iter().filter(|r| r.wid == self.t && r.local == st.local) {
                if r.announced != st.announced {
                    mon::observer_violation(
                        "C16",
                        "C16|announced-epoch-moved-under-live-guard",
                        format!("after {}: guard serial {} registered at epoch {} but the participant now announces {}", what, r.serial, r.announced, st.announced),
                    );
                }
            }
            let g = V::collector_epoch(&self.collector);
            if g < st.announced || g - st.announced > 1 {
                mon::observer_violation("C14", "C14|pinned-participant-sees-more-than-one-advance", format!("after {}: pinned at {} but global epoch {}", what, st.announced, g));
            }
        }
    }
    fn pin(&mut self, slot: usize) {
        let g = self.handle.as_ref().unwrap().pin();
        CUR_HANDLE.with(|c| c.set(self.handle.as_ref().unwrap() as *const LocalHandle as usize));
        let serial = reg(&g);
        self.guards[slot] = GSlot { g: Some(g), serial };
    }
    fn unpin(&mut self, slot: usize) {
        dereg(self.guards[slot].serial);
        let g = self.guards[slot].g.take();
        drop(g);
    }
    fn some_guard(&mut self) -> usize {
        let l = self.live();
        if l.is_empty() {
            if self.handle.is_none() {
                return usize::MAX;
            }
            self.pin(0);
            self.lg("g0 = pin() (implicit)".into());
            0
        } else {
            *self.rng.pick(&l)
        }
    }
    fn gref(&self, s: usize) -> &'static Guard {
        unsafe { &*(self.guards[s].g.as_ref().unwrap() as *const Guard) }
    }
    fn step(&mut self) {
        sched::yield_hook(120);
        for _ in 0..8 {
            let w = self.weights.clone();
            let op = self.rng.weighted(&w);
            if self.try_op(op) {
                sched::note(0xE000 + op as u64 + ((self.t as u64) << 8));
                return;
            }
        }
    }
    fn try_op(&mut self, op: usize) -> bool {
        match op {
            0 => {
                let free: Vec<usize> = (0..self.guards.len()).filter(|&i| self.guards[i].g.is_none()).collect();
                if free.is_empty() || self.handle.is_none() {
                    return false;
                }
                let s = *self.rng.pick(&free);
                self.pin(s);
                self.lg(format!("g{} = pin()", s));
                self.check_model("pin");
            }
            1 => {
                let l = self.live();
                if l.is_empty() {
                    return false;
                }
                let s = *self.rng.pick(&l);
                self.lg(format!("drop(g{})", s));
                self.unpin(s);
                self.check_model("unpin");
            }
            2 => {
                let l = self.live();
                if l.is_empty() {
                    return false;
                }
                let s = *self.rng.pick(&l);
                let sole = l.len() == 1;
                dereg(self.guards[s].serial);
                self.lg(format!("g{}.reactivate() sole={}", s, sole));
                self.guards[s].g.as_mut().unwrap().reactivate();
                self.guards[s].serial = reg(self.guards[s].g.as_ref().unwrap());
                self.check_model("reactivate");
            }
            3 | 11 => {
                let l = self.live();
                if l.is_empty() {
                    return false;
                }
                let s = *self.rng.pick(&l);
                let sole = l.len() == 1;
                let panic = op == 11;
                dereg(self.guards[s].serial);
                self.lg(format!("g{}.reactivate_after(inspect{}) sole={}", s, if panic { "+panic" } else { "" }, sole));
                let h: *const LocalHandle = match self.handle.as_ref() {
                    Some(h) => h,
                    None => std::ptr::null(),
                };
                let nlive = l.len();
                let mut g = self.guards[s].g.take().unwrap();
                let lstate = V::local_state(&g).unwrap();
                let body = move || {
                    // inside the closure the thread is unpinned iff this was the sole guard
                    let st = if h.is_null() {
                        // no handle: read the participant's epoch word (it must still exist)
                        let (p, a) = unsafe { V::local_epoch_of(lstate.local) };
                        V::LocalState { pinned: p, announced: a, guard_count: nlive - 1, ..lstate }
                    } else {
                        V::handle_state(unsafe { &*h })
                    };
                    MODEL_EVALS.fetch_add(1, Relaxed);
                    if st.pinned != !sole || st.guard_count != nlive - 1 {
                        mon::observer_violation(
                            "C16",
                            "C16|reactivate_after-closure-state",
                            format!("inside reactivate_after's closure: sole guard = {} but pinned={} guard_count={}", sole, st.pinned, st.guard_count),
                        );
                    }
                    if panic {
                        EXPECT_PANIC.with(|p| p.set(true));
                        panic!("expected panic inside reactivate_after");
                    }
                    41
                };
                if panic {
                    let r = std::panic::catch_unwind(std::panic::AssertUnwindSafe(|| g.reactivate_after(body)));
                    EXPECT_PANIC.with(|p| p.set(false));
                    if r.is_ok() {
                        mon::harness_error("expected panic did not propagate");
                    }
                } else {
                    let v = g.reactivate_after(body);
                    if v != 41 {
                        mon::observer_violation("C16", "C16|reactivate_after-result", "reactivate_after did not return the closure's result".into());
                    }
                }
                self.guards[s].g = Some(g);
                self.guards[s].serial = reg(self.guards[s].g.as_ref().unwrap());
                self.check_model(if panic { "reactivate_after(panic)" } else { "reactivate_after" });
            }
            4 => {
                let s = self.some_guard();
                if s == usize::MAX {
                    return false;
                }
                let id = do_defer(self.gref(s), &mut self.rng);
                self.lg(format!("defer(c{}) via g{}", id, s));
            }
            5 => {
                let s = self.some_guard();
                if s == usize::MAX {
                    return false;
                }
                self.lg(format!("g{}.flush()", s));
                self.gref(s).flush();
                self.check_model("flush");
            }
            6 => {
                let s = self.some_guard();
                if s == usize::MAX {
                    return false;
                }
                self.lg(format!("collect(g{})", s));
                V::collect(self.gref(s));
                self.check_model("collect");
            }
            7 => {
                let s = self.some_guard();
                if s == usize::MAX {
                    return false;
                }
                let e = V::try_advance(self.gref(s));
                self.lg(format!("try_advance(g{}) -> {}", s, e));
                self.check_model("try_advance");
            }
            8 => {
                let s = self.some_guard();
                if s == usize::MAX {
                    return false;
                }
                if self.rng.chance(1, 3) {
                    // fill the participant's bag exactly to the brim (the next push has to seal it)
                    let mut n = 0;
                    while V::local_state(self.gref(s)).map_or(64, |st| st.bag_len) < 64 && n < 70 {
                        do_defer(self.gref(s), &mut self.rng);
                        n += 1;
                    }
                    self.lg(format!("defer x{} via g{} (bag now full)", n, s));
                } else {
                    let n = self.rng.range(20, 70);
                    self.lg(format!("defer x{} via g{}", n, s));
                    for _ in 0..n {
                        do_defer(self.gref(s), &mut self.rng);
                    }
                }
                self.check_model("defer-burst");
            }
            9 => {
                if self.extra.is_some() || self.handle.is_none() {
                    return false;
                }
                self.extra = Some(self.collector.register());
                self.lg("extra = collector.register()".into());
                // use it once
                let g = self.extra.as_ref().unwrap().pin();
                let ser = reg(&g);
                do_defer(&g, &mut self.rng);
                dereg(ser);
                drop(g);
            }
            10 => {
                if self.extra.is_none() {
                    return false;
                }
                self.lg("drop(extra handle)".into());
                self.extra = None;
            }
            12 => {
                // the handle goes away while guards stay alive (what a guard taken in a TLS destructor
                // after the thread's handle was destroyed looks like): the participant must stay
                // registered and pinned, also across reactivate / reactivate_after
                if self.handle.is_none() || self.live().is_empty() {
                    return false;
                }
                CUR_HANDLE.with(|c| c.set(0));
                self.extra = None;
                self.handle = None;
                self.lg("drop(handle) with guards alive; program continues on the guards".into());
                self.check_model("drop-handle");
            }
            13 => {
                // a closure that, when it runs (inside some thread's collection), defers another closure
                // through that thread's own participant
                let s = self.some_guard();
                if s == usize::MAX {
                    return false;
                }
                let count = if self.rng.chance(1, 3) { self.rng.range(40, 140) } else { 1 };
                self.lg(format!("defer x{} (closures that defer again when they run) via g{}", count, s));
                for _ in 0..count {
                let id = NEXT_C.fetch_add(1, SeqCst);
                if id >= MAXC {
                    mon::harness_error("closure table exhausted");
                }
                let set: Vec<u64> = ACTIVE.lock().unwrap().iter().map(|r| r.serial).collect();
                unsafe {
                    V::defer(self.gref(s), move || {
                        on_run(id, &set, true, "nesting");
                        let h = CUR_HANDLE.with(|c| c.get());
                        if h != 0 {
                            let handle = &*(h as *const LocalHandle);
                            let g = handle.pin();
                            let inner = NEXT_C.fetch_add(1, SeqCst);
                            if inner < MAXC {
                                NESTED.fetch_add(1, Relaxed);
                                // guards active now (foreign ones) must outlive the inner closure's deferral
                                let me = sched::wid();
                                let set2: Vec<u64> = ACTIVE.lock().unwrap().iter().filter(|r| r.wid != me).map(|r| r.serial).collect();
                                V::defer(&g, move || on_run(inner, &set2, true, "nested-inner"));
                            }
                            drop(g);
                        }
                    });
                }
                }
            }
            _ => return false,
        }
        true
    }
    fn finish(&mut self, handle_first: bool) {
        CUR_HANDLE.with(|c| c.set(0));
        if handle_first && !self.live().is_empty() {
            // the handle goes away while a guard is still alive; the participant must stay
            // registered and pinned until the guard is dropped
            let h = self.handle.take();
            drop(h);
            self.lg("drop(handle) with guards alive".into());
        }
        for s in 0..self.guards.len() {
            if self.guards[s].g.is_some() {
                self.unpin(s);
            }
        }
        self.extra = None;
        self.handle = None;
        mon::flush_evals();
    }
}

pub struct EbrCfg {
    pub profile: String,
    pub mode: Mode,
    pub seed: u64,
    pub shard: u64,
    pub execs: u64,
    pub secs: f64,
}

#[derive(Default)]
pub struct EbrStats {
    pub execs: u64,
    pub cut: u64,
    pub steps: u64,
    pub switches: u64,
    pub hashes: HashSet<u64>,
    pub nontrivial: HashSet<u64>,
    pub closures: u64,
    pub site_preempt: Vec<u64>,
    pub stalls: Counts,
    pub samples: Vec<J>,
    pub rounds_max: u64,
    pub variants: Counts,
}

fn weights(profile: &str) -> Vec<u32> {
    // pin unpin react react_after defer flush collect advance burst extra drop-extra react-panic
    match profile {
        "c13" => vec![8, 8, 1, 1, 16, 5, 8, 6, 3, 1, 1, 1, 1, 6],
        "c14" => vec![10, 10, 3, 2, 6, 4, 10, 12, 2, 1, 1, 1, 3, 1],
        "c15" => vec![6, 7, 1, 1, 14, 5, 5, 3, 8, 2, 2, 2, 1, 3],
        "c16" => vec![12, 12, 8, 6, 4, 3, 4, 3, 1, 0, 0, 2, 4, 0],
        // the real participant registry: handles registering and leaving while others advance
        "c18e" => vec![10, 9, 3, 2, 3, 2, 8, 12, 1, 10, 10, 1, 3, 0],
        // small programs for Miri
        "tiny" => vec![8, 8, 2, 1, 10, 4, 6, 5, 0, 1, 1, 0, 1, 1],
        _ => vec![8, 8, 2, 2, 10, 4, 6, 5, 3, 1, 1, 1, 1, 1],
    }
}

pub fn run_batch(cfg: &EbrCfg) -> EbrStats {
    let mut st = EbrStats { site_preempt: vec![0; sched::NSITE], ..Default::default() };
    sched::set_mode(Mode::Off);
    mon::set_extra_event(Some(ev_hook));
    let t0 = Instant::now();
    let mut idx = 0u64;
    while idx < cfg.execs && t0.elapsed().as_secs_f64() < cfg.secs {
        let eseed = mix(mix(cfg.seed, cfg.shard ^ 0xEB), idx);
        run_one(cfg, eseed, idx, &mut st);
        idx += 1;
    }
    sched::set_sampler(None);
    mon::set_extra_event(None);
    st
}

fn run_one(cfg: &EbrCfg, eseed: u64, idx: u64, st: &mut EbrStats) {
    let mut rng = Rng::new(eseed);
    sched::set_mode(Mode::Off);
    let first_c = NEXT_C.load(SeqCst);
    if first_c > MAXC - 8000 {
        for e in EXEC.iter() {
            e.store(0, Relaxed);
        }
        NEXT_C.store(0, SeqCst);
    }
    let first_c = NEXT_C.load(SeqCst);
    ACTIVE.lock().unwrap().clear();
    *LOCALS.lock().unwrap() = Some(Default::default());
    CUR_GLOBAL.store(0, SeqCst);
    let collector = Collector::new();
    // a few epochs of pre-roll on the private collector
    {
        let h = collector.register();
        for _ in 0..rng.below(if cfg!(miri) { 2 } else { 6 }) {
            let g = h.pin();
            V::collect(&g);
        }
    }
    LAST_GLOBAL.store(V::collector_epoch(&collector), SeqCst);
    *CUR_COLLECTOR.lock().unwrap() = Some(collector.clone());
    sched::set_sampler(if cfg.mode == Mode::Serial { Some(sampler) } else { None });
    let nthreads = rng.range(2, 4) as usize;
    let policy = match rng.below(10) {
        0..=4 => {
            let (num, den) = *rng.pick(&[(1u64, 2u64), (1, 4), (1, 10), (1, 30)]);
            Policy::Rand { num, den }
        }
        5..=8 => Policy::Pct { depth: rng.range(1, 5) as u32, est_len: rng.range(100, 3000) },
        _ => Policy::Coop,
    };
    let sites = [
        S::PIN_GLOBAL, S::PIN_PUBLISH, S::PIN_PUBLISH, S::PIN_VALIDATE, S::PIN_VALIDATE, S::PIN_RESET, S::ADV_GLOBAL, S::ADV_LOCAL, S::ADV_LOCAL,
        S::ADV_STORE, S::ADV_STORE, S::PUSH_BAG_FENCE, S::PUSH_BAG_EPOCH, S::PUSH_BAG_PUSH, S::COLLECT_AFTER_ADVANCE, S::COLLECT_POP, S::UNPIN_COLLECT,
        S::UNPIN_CLEAR, S::REPIN_LOAD, S::REPIN_STORE, S::FIN_PIN, S::FIN_DELETE, S::FIN_DROP, S::BAG_CALL, S::Q_PUSH_LINK, S::Q_PUSH_SWING, S::Q_POP_CAS,
        S::Q_POP_NEXT, S::L_INS_CAS, S::L_ITER_NEXT, S::L_ITER_UNLINK, S::L_DELETE, 120,
    ];
    let mut stalls = Vec::new();
    for _ in 0..*rng.pick(&[0usize, 1, 1, 2, 2, 3]) {
        stalls.push(Stall {
            thread: if rng.chance(1, 2) { ANY } else { rng.below(nthreads as u64) as u32 },
            site: *rng.pick(&sites),
            kth: rng.range(1, 5) as u32,
            max_steps: *rng.pick(&[20u64, 80, 300, 1000, 4000]),
            epochs: *rng.pick(&[0u64, 1, 1, 2, 3, 4]),
            when: None,
            repeat: false,
            until: None,
        });
    }
    let desc = J::obj()
        .set("profile", cfg.profile.as_str())
        .set("mode", format!("{:?}", cfg.mode))
        .set("seed", cfg.seed)
        .set("shard", cfg.shard)
        .set("index", idx)
        .set("threads", nthreads)
        .set("policy", format!("{:?}", policy))
        .set("stalls", J::A(stalls.iter().map(|s| J::S(format!("t={} site={} k={} max_steps={} epochs={}", if s.thread == ANY { "any".into() } else { s.thread.to_string() }, S::name(s.site), s.kth, s.max_steps, s.epochs))).collect()));
    mon::set_ctx(&cfg.profile, desc.clone(), nthreads);
    let adv0 = ADV_WITH_FOREIGN.load(Relaxed);
    let def0 = DEFER_WITH_FOREIGN.load(Relaxed);
    let mut bodies: Vec<Box<dyn FnOnce() + Send>> = Vec::new();
    for t in 0..nthreads {
        let c = collector.clone();
        let nops = if cfg.profile == "tiny" { rng.range(3, 10) } else { rng.range(4, 30) };
        let tseed = mix(eseed, 77 + t as u64);
        let w = weights(&cfg.profile);
        let handle_first = rng.chance(1, 4);
        let early_exit = rng.chance(1, 5);
        bodies.push(Box::new(move || {
            let mut th = ET {
                t: t as u32,
                rng: Rng::new(tseed),
                handle: Some(c.register()),
                collector: c,
                extra: None,
                guards: (0..3).map(|_| GSlot { g: None, serial: 0 }).collect(),
                weights: w,
            };
            let n = if early_exit { nops / 3 } else { nops };
            for _ in 0..n {
                th.step();
            }
            th.finish(handle_first);
        }));
    }
    if cfg.mode == Mode::Parallel {
        let site = if rng.chance(2, 3) { Some(*rng.pick(&sites)) } else { None };
        sched::par_config(site, *rng.pick(&[50u32, 200, 1000]), rng.range(1, 4) as u32);
    }
    sched::set_mode(cfg.mode);
    let es = sched::run_exec(ExecCfg { seed: eseed, policy, stalls, step_cap: 300_000 }, bodies);
    sched::set_mode(Mode::Off);
    sched::set_sampler(None);
    *CUR_COLLECTOR.lock().unwrap() = None;
    // ---- C15: every closure runs exactly once ---------------------------------------------------
    let last_c = NEXT_C.load(SeqCst);
    let pending = |a: usize, b: usize| (a..b).filter(|i| EXEC[*i % MAXC].load(SeqCst) == 0).count();
    let variant_rounds = rng.chance(2, 3);
    let mut rounds = 0u64;
    let mut last_c = last_c;
    if variant_rounds && rng.chance(1, 4) {
        // A burst of single-closure bags sealed in one epoch (more than one collection pops), three further
        // advances, then a participant that stays inside a critical section: the global epoch can move at most
        // once more, but everything deferred so far has expired and must still be executed by the survivor.
        let hb = collector.register();
        let b = *rng.pick(&[20usize, 60, 150, 300]);
        {
            let g = hb.pin();
            for _ in 0..b {
                do_defer(&g, &mut rng);
                g.flush();
            }
        }
        let upto = NEXT_C.load(SeqCst);
        let e_b = V::collector_epoch(&collector);
        let mut aged = false;
        for _ in 0..20 {
            let g = hb.pin();
            g.flush();
            drop(g);
            if V::collector_epoch(&collector) >= e_b + 3 {
                aged = true;
                break;
            }
        }
        if aged {
            st.variants.inc("survivor-rounds-with-parked-participant");
            let hp = collector.register();
            let gp = hp.pin();
            let bound = 64 + (upto - first_c) as u64 / 4;
            let mut r = 0u64;
            while pending(first_c, upto) > 0 && r < bound {
                let g = hb.pin();
                g.flush();
                drop(g);
                r += 1;
            }
            let p = pending(first_c, upto);
            if p > 0 {
                mon::violation(
                    "C15",
                    "C15|closure-not-run-within-bound|parked-participant",
                    format!("{} of {} closures deferred at least three epochs before a participant parked inside a critical section were not executed after {} pin/flush/unpin rounds by a surviving participant", p, upto - first_c, bound),
                );
            }
            rounds = rounds.max(r);
            drop(gp);
            drop(hp);
        }
        drop(hb);
        last_c = NEXT_C.load(SeqCst);
    }
    if variant_rounds {
        st.variants.inc("survivor-rounds");
        let h = collector.register();
        let bound = 64 + (last_c - first_c) as u64 / 4;
        // the shape of the survivor's pin/flush/unpin rounds varies
        let shape = rng.below(4);
        st.variants.inc(["round=pin-flush-unpin", "round=nested-inner-flush", "round=flush-reactivate", "round=flush-then-second-guard"][shape as usize]);
        let mut long_guard = if shape == 2 { Some(h.pin()) } else { None };
        while pending(first_c, last_c) > 0 && rounds < bound {
            match shape {
                0 => {
                    let g = h.pin();
                    g.flush();
                    drop(g);
                }
                1 => {
                    let outer = h.pin();
                    {
                        let inner = h.pin();
                        inner.flush();
                    }
                    drop(outer);
                }
                2 => {
                    let g = long_guard.as_mut().unwrap();
                    g.flush();
                    g.reactivate();
                }
                _ => {
                    let g = h.pin();
                    g.flush();
                    let g2 = h.pin();
                    drop(g2);
                    drop(g);
                }
            }
            rounds += 1;
        }
        drop(long_guard.take());
        let p = pending(first_c, last_c);
        if p > 0 {
            let lost: Vec<usize> = (first_c..last_c).filter(|i| EXEC[*i % MAXC].load(SeqCst) == 0).take(5).collect();
            mon::violation(
                "C15",
                "C15|closure-not-run-within-bound",
                format!("{} of {} deferred closures (e.g. {:?}) were not executed after {} pin/flush/unpin rounds by a surviving participant", p, last_c - first_c, lost, bound),
            );
        }
        drop(h);
        drop(collector);
    } else {
        st.variants.inc("collector-dropped");
        drop(collector);
        let p = pending(first_c, last_c);
        if p > 0 {
            mon::violation(
                "C15",
                "C15|closure-lost-at-collector-drop",
                format!("{} of {} deferred closures had not run after every handle and the collector were dropped", p, last_c - first_c),
            );
        }
    }
    // every handle and the collector are gone: every participant record of this collector was freed exactly once
    {
        let g = LOCALS.lock().unwrap();
        if let Some(m) = g.as_ref() {
            mon::eval("participant-record");
            let left = m.values().filter(|f| !**f).count();
            if left > 0 {
                let (n, l) = (m.len(), left);
                drop(g);
                mon::observer_violation(
                    "C18",
                    "C18|participant-record-never-freed",
                    format!("{} of {} participant records of the collector were never freed although every handle and the collector itself were dropped", l, n),
                );
            }
        }
    }
    CUR_GLOBAL.store(usize::MAX, SeqCst);
    for i in first_c..last_c {
        if EXEC[i % MAXC].load(SeqCst) != 1 {
            mon::violation("C15", "C15|closure-count-not-one", format!("closure {} executed {} times", i, EXEC[i % MAXC].load(SeqCst)));
        }
    }
    st.rounds_max = st.rounds_max.max(rounds);
    st.execs += 1;
    mon::EXECS_DONE.fetch_add(1, SeqCst);
    mon::NONTRIVIAL_DONE.fetch_add(1, SeqCst);
    st.cut += es.cut as u64;
    st.steps += es.steps;
    st.switches += es.switches;
    st.closures += (last_c - first_c) as u64;
    for i in 0..sched::NSITE {
        st.site_preempt[i] += es.site_preempt[i];
    }
    for (site, _s, eps, why) in &es.stalls_fired {
        st.stalls.inc(&format!("{}|released-by-{}", S::name(*site), why));
        if *eps >= 1 {
            st.stalls.inc("stalled-across-an-advance");
        }
    }
    let oplogs = mon::take_oplogs();
    let h = if cfg.mode == Mode::Serial {
        es.hash
    } else {
        let mut h = eseed;
        for l in &oplogs {
            for s in l {
                for b in s.bytes() {
                    h = h.wrapping_mul(0x100000001b3) ^ b as u64;
                }
            }
        }
        h
    };
    st.hashes.insert(h);
    let relevant = match cfg.profile.as_str() {
        "c13" => DEFER_WITH_FOREIGN.load(Relaxed) > def0,
        "c14" => ADV_WITH_FOREIGN.load(Relaxed) > adv0,
        "c15" => last_c > first_c,
        _ => true,
    };
    if relevant {
        st.nontrivial.insert(h);
        if st.samples.len() < 3 {
            st.samples.push(desc.set("steps", es.steps).set("closures", last_c - first_c).set(
                "oplogs",
                J::A(oplogs.iter().map(|l| J::A(l.iter().take(30).map(|s| J::S(s.clone())).collect())).collect()),
            ));
        }
    }
}

pub fn summary(cfg: &EbrCfg, st: &EbrStats, wall: f64) -> J {
    let mut pre = J::obj();
    for i in 0..sched::NSITE {
        if st.site_preempt[i] > 0 {
            pre.put(if i == 120 { "op-boundary" } else { S::name(i as u16) }, st.site_preempt[i]);
        }
    }
    J::obj()
        .set("type", "summary")
        .set("profile", cfg.profile.as_str())
        .set("mode", format!("{:?}", cfg.mode))
        .set("execs", st.execs)
        .set("inconclusive_cut", st.cut)
        .set("steps", st.steps)
        .set("switches", st.switches)
        .set("distinct", st.hashes.len())
        .set("nontrivial_hashes", J::A(st.nontrivial.iter().map(|h| J::S(format!("{:x}", h))).collect()))
        .set("closures_deferred", st.closures)
        .set("closures_run", RAN_CLOSURES.load(Relaxed))
        .set("c13_evaluations", C13_EVALS.load(Relaxed))
        .set("epoch_samples", SAMPLES.load(Relaxed))
        .set("model_evaluations", MODEL_EVALS.load(Relaxed))
        .set("advances_with_foreign_guard", ADV_WITH_FOREIGN.load(Relaxed))
        .set("nested_defers_from_running_closures", NESTED.load(Relaxed))
        .set("defers_with_foreign_guard", DEFER_WITH_FOREIGN.load(Relaxed))
        .set("site_preempt", pre)
        .set("stalls", &st.stalls)
        .set("c15_variants", &st.variants)
        .set("survivor_rounds_max", st.rounds_max)
        .set("events", mon::ev_counts_json())
        .set("monitor_evals", mon::evals_json())
        .set("samples", J::A(st.samples.clone()))
        .set("wall_s", wall)
}

// ---------------------------------------------------------------------------------------------
// C16: exhaustive enumeration of single-thread guard programs

pub fn c16_enum(max_len: usize) -> (u64, u64) {
    // ops: 0..3 pin slot i; 3..6 drop slot i; 6..9 reactivate slot i; 9..12 reactivate_after slot i
    sched::set_mode(Mode::Off);
    let collector = Collector::new();
    let mut programs = 0u64;
    let mut evals = 0u64;
    fn rec(prog: &mut Vec<u8>, max_len: usize, collector: &Collector, programs: &mut u64, evals: &mut u64) {
        if !prog.is_empty() {
            *programs += 1;
            *evals += exec_prog(prog, collector);
        }
        if prog.len() == max_len {
            return;
        }
        // live set after prog (statically computable)
        let mut live = [false; 2];
        for &op in prog.iter() {
            let s = (op % 2) as usize;
            match op / 2 {
                0 => live[s] = true,
                1 => live[s] = false,
                _ => {}
            }
        }
        for op in 0..8u8 {
            let s = (op % 2) as usize;
            let ok = match op / 2 {
                0 => !live[s],
                _ => live[s],
            };
            if ok {
                prog.push(op);
                rec(prog, max_len, collector, programs, evals);
                prog.pop();
            }
        }
    }
    let mut p = Vec::new();
    rec(&mut p, max_len, &collector, &mut programs, &mut evals);
    (programs, evals)
}

fn exec_prog(prog: &[u8], collector: &Collector) -> u64 {
    let h = collector.register();
    let mut guards: [Option<Guard>; 2] = [None, None];
    let mut evals = 0;
    let mut announced: Option<usize> = None;
    for (i, &op) in prog.iter().enumerate() {
        let s = (op % 2) as usize;
        let nlive_before = guards.iter().filter(|g| g.is_some()).count();
        let mut sole_react = false;
        match op / 2 {
            0 => guards[s] = Some(h.pin()),
            1 => guards[s] = None,
            2 => {
                sole_react = nlive_before == 1;
                guards[s].as_mut().unwrap().reactivate();
            }
            _ => {
                sole_react = nlive_before == 1;
                let hp: *const LocalHandle = &h;
                let sole = nlive_before == 1;
                guards[s].as_mut().unwrap().reactivate_after(|| {
                    let st = V::handle_state(unsafe { &*hp });
                    if st.pinned != !sole {
                        mon::report("C16", "C16|reactivate_after-closure-state", format!("program {:?} step {}: inside closure pinned={} sole={}", prog, i, st.pinned, sole));
                    }
                    // another participant advances the epoch meanwhile
                    let h2 = unsafe { (*hp).pin() };
                    V::collect(&h2);
                    drop(h2);
                });
            }
        }
        let st = V::handle_state(&h);
        let n = guards.iter().filter(|g| g.is_some()).count();
        evals += 1;
        mon::eval("guard-model");
        if st.guard_count != n || st.pinned != (n > 0) {
            mon::report(
                "C16",
                "C16|pinned-state-mismatch|enum",
                format!("program {:?} after step {}: {} live guards, guard_count={} pinned={}", prog, i, n, st.guard_count, st.pinned),
            );
        }
        if n > 0 {
            if nlive_before > 0 && !sole_react {
                if let Some(a) = announced {
                    if a != st.announced {
                        mon::report("C16", "C16|announced-epoch-moved-under-live-guard", format!("program {:?} step {}: announced {} -> {}", prog, i, a, st.announced));
                    }
                }
            }
            announced = Some(st.announced);
        } else {
            announced = None;
        }
        // someone else advances the epoch between steps
        if i % 2 == 1 {
            let h2 = collector.register();
            let g2 = h2.pin();
            V::try_advance(&g2);
        }
    }
    evals
}
