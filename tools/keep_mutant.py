#!/usr/bin/env python3
"""keep_mutant.py <worktree> <A|B> <seeded-id> <confirm-log> <detect-json>: copies a confirmed mutant into /verif/seeded/<id>/"""
import json, os, shutil, sys
w, m, sid, confirm, detect = sys.argv[1:6]
d = f"/verif/seeded/{sid}"
os.makedirs(d, exist_ok=True)
shutil.copy(f"{w}/mutant_{m}.diff", f"{d}/patch.diff")
if os.path.isdir(f"{d}/demo"):
    shutil.rmtree(d + "/demo")
shutil.copytree(f"{w}/demo_{m}", f"{d}/demo", ignore=shutil.ignore_patterns("target", "Cargo.lock"))
meta = json.load(open(f"{w}/meta_{m}.json"))
meta["confirmed_by_me"] = open(confirm).read()[-1500:]
meta["checks_run"] = json.loads(detect)
json.dump(meta, open(f"{d}/meta.json", "w"), indent=1)
print("kept", d)
