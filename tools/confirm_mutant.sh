#!/bin/bash
# confirm_mutant.sh <worktree> <A|B> <setup-cmd> <demo-cmd>
# Confirms in the scratch worktree: demo passes without the change, the 36 tests pass with it, demo fails with it.
W=$1; M=$2; SETUP=$3; DEMO=$4
cd "$W" || exit 2
git checkout -q -- src tests 2>/dev/null
eval "$SETUP" >/dev/null 2>&1
echo "--- baseline demo"; ( eval "$DEMO" ) > /tmp/confirm_base.log 2>&1; B=$?; echo "baseline demo exit=$B"
git apply mutant_$M.diff || { echo "APPLY FAILED"; exit 2; }
echo "--- tests with change"; cargo test --offline --no-fail-fast 2>&1 | grep -E "^test result|FAILED|panicked" | tr '\n' ' '; echo
cargo build --offline --features circ_verif 2>&1 | grep -E "^error" | head -3
echo "--- demo with change"; ( eval "$DEMO" ) > /tmp/confirm_mut.log 2>&1; X=$?; echo "mutant demo exit=$X"; tail -4 /tmp/confirm_mut.log
git checkout -q -- src tests
echo "RESULT baseline=$B mutant=$X"
