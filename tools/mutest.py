#!/usr/bin/env python3
"""Runs checks against a seeded change: applies the diff to /repo, runs `vcheck` for the given
properties, reverts /repo. Usage: mutest.py <patch.diff> <tier> C01 [C02 ...]
Prints one line per property: DETECTED (exit 1) / missed (exit 0) / inconclusive (exit 2)."""
import json, os, subprocess, sys, time

ROOT = os.path.dirname(os.path.dirname(os.path.abspath(__file__)))


def main():
    import fcntl
    lock = open("/tmp/.verif_repo.lock", "w")
    fcntl.flock(lock, fcntl.LOCK_EX)  # no other check may build while the change is applied
    os.environ["VCHECK_NOLOCK"] = "1"
    diff, tier, props = sys.argv[1], sys.argv[2], sys.argv[3:]
    st = subprocess.run(["git", "-C", "/repo", "status", "--porcelain", "--untracked-files=no"], stdout=subprocess.PIPE, text=True).stdout.strip()
    if st:
        print("refusing: /repo has uncommitted changes:\n" + st)
        return 2
    r = subprocess.run(["git", "-C", "/repo", "apply", diff])
    if r.returncode != 0:
        print("patch does not apply")
        return 2
    res = {}
    try:
        for p in props:
            t0 = time.time()
            env = dict(os.environ)
            env.pop("VERIF_TIER", None)
            r = subprocess.run([os.path.join(ROOT, "vcheck"), p, "--tier", tier], cwd=ROOT, stdout=subprocess.PIPE, stderr=subprocess.STDOUT, text=True, env=env)
            sigs = [l.strip()[len("signature: "):] for l in r.stdout.splitlines() if l.strip().startswith("signature: ")]
            res[p] = dict(exit=r.returncode, signatures=sigs, wall=round(time.time() - t0, 1))
            verdict = {0: "missed", 1: "DETECTED", 2: "inconclusive"}.get(r.returncode, str(r.returncode))
            print(f"{p}: {verdict} in {res[p]['wall']}s {sigs[:3]}")
            if r.returncode == 2:
                print("   " + "\n   ".join(r.stdout.splitlines()[-6:]))
    finally:
        subprocess.run(["git", "-C", "/repo", "checkout", "--", "."])
        # never leave binaries of the changed tree behind (a batch driver may do this once at its end)
        if not os.environ.get("MUTEST_NO_REBUILD"):
            subprocess.run([os.path.join(ROOT, "vcheck"), "build", "debug", "release"], cwd=ROOT, stdout=subprocess.DEVNULL)
    print(json.dumps(res))
    return 0


if __name__ == "__main__":
    sys.exit(main())
