#!/usr/bin/env python3
"""Prints the markdown table of DESIGN.md §12.5 from seeded/*/meta.json."""
import json, os, glob

ROOT = os.path.dirname(os.path.dirname(os.path.abspath(__file__)))


def esc(s):
    return s.replace("|", "¦").replace("\n", " ")


rows = []
stats = {}
for d in sorted(glob.glob(os.path.join(ROOT, "seeded", "*"))):
    if not os.path.isdir(d):
        continue
    sid = os.path.basename(d)
    m = json.load(open(os.path.join(d, "meta.json")))
    rnd = m.get("round", 1)
    summ = esc(m.get("summary", ""))[:150] + "…"
    det = []
    fs = None
    note = None
    for p, c in m.get("checks_run", {}).items():
        note = note or c.get("note")
        if c.get("exit") == 1:
            sig = ", ".join(esc(s) for s in c.get("signatures", [])[:2]) or "detected"
            det.append(f"{p}: {sig}")
        if c.get("first_shot"):
            fs = c["first_shot"]
    fs = fs or m.get("first_shot") or "?"
    note = esc(note or m.get("note") or "–")
    st = stats.setdefault(rnd, [0, 0])
    st[1] += 1
    st[0] += fs == "detected"
    rows.append(f"| {sid} | {rnd} | {summ} | {'; '.join(det) or 'NOT DETECTED'} | {fs} | {note} |")
out = ["| id | round | change (abridged) | detected by (signature) | first shot | what the miss added |", "|---|---|---|---|---|---|"] + rows
out += ["", "First-shot detection per round: " + ", ".join(f"round {k}: {v[0]} of {v[1]}" for k, v in sorted(stats.items())) + "."]
text = "\n".join(out)
import sys
if "--update" in sys.argv:
    p = os.path.join(ROOT, "DESIGN.md")
    s = open(p).read()
    a, b = s.index("<!-- seeded-table-begin -->") + len("<!-- seeded-table-begin -->"), s.index("<!-- seeded-table-end -->")
    open(p, "w").write(s[:a] + "\n" + text + "\n" + s[b:])
else:
    print(text)
