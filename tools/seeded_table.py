#!/usr/bin/env python3
"""Prints the markdown table of DESIGN.md §12.5 from seeded/*/meta.json."""
import json, os, glob

ROOT = os.path.dirname(os.path.dirname(os.path.abspath(__file__)))


def esc(s):
    return s.replace("|", "¦").replace("\n", " ")


rows = []
stats = {}
for d in sorted(glob.glob(os.path.join(ROOT, "seeded", "*"))):
    if not os.path.isdir(d):
        continue
    sid = os.path.basename(d)
    m = json.load(open(os.path.join(d, "meta.json")))
    rnd = m.get("round", 1)
    summ = esc(m.get("summary", ""))[:150] + "…"
    det = []
    fs = None
    note = None
    for p, c in m.get("checks_run", {}).items():
        note = note or c.get("note")
        if c.get("exit") == 1:
            sig = ", ".join(esc(s) for s in c.get("signatures", [])[:2]) or "detected"
            det.append(f"{p}: {sig}")
        if c.get("first_shot"):
            fs = c["first_shot"]
    fs = fs or m.get("first_shot") or "?"
    note = esc(note or m.get("note") or "–")
    st = stats.setdefault(rnd, [0, 0])
    st[1] += 1
    st[0] += fs == "detected"
    rows.append(f"| {sid} | {rnd} | {summ} | {'; '.join(det) or 'NOT DETECTED'} | {fs} | {note} |")
print("| id | round | change (abridged) | detected by (signature) | first shot | what the miss added |")
print("|---|---|---|---|---|---|")
print("\n".join(rows))
print()
print("first-shot detection per round:", {k: f"{v[0]} of {v[1]}" for k, v in sorted(stats.items())})
