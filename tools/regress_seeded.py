#!/usr/bin/env python3
"""Re-runs the quick check of each kept seeded change's property against the change and records the
result in seeded/<id>/meta.json (`checks_run[prop]`: exit, signatures; `first_shot` and notes are kept).
Usage: regress_seeded.py [id ...]   (default: all). Prints a summary; exit 1 if any change is missed."""
import json, os, subprocess, sys, glob

ROOT = os.path.dirname(os.path.dirname(os.path.abspath(__file__)))


def main():
    ids = sys.argv[1:] or sorted(os.path.basename(d) for d in glob.glob(os.path.join(ROOT, "seeded", "*")) if os.path.isdir(d))
    missed = []
    for sid in ids:
        d = os.path.join(ROOT, "seeded", sid)
        meta = json.load(open(os.path.join(d, "meta.json")))
        prop = meta.get("property") or sid.split("-")[0]
        r = subprocess.run([sys.executable, os.path.join(ROOT, "tools", "mutest.py"), os.path.join(d, "patch.diff"), "quick", prop], stdout=subprocess.PIPE, text=True,
                           env=dict(os.environ, MUTEST_NO_REBUILD="1"))
        res = {}
        for l in r.stdout.splitlines():
            if l.startswith("{"):
                try:
                    res = json.loads(l)
                except Exception:
                    pass
        got = res.get(prop, {})
        cr = meta.setdefault("checks_run", {}).setdefault(prop, {})
        cr["exit"] = got.get("exit")
        cr["signatures"] = got.get("signatures", [])[:4]
        cr["tier"] = "quick"
        json.dump(meta, open(os.path.join(d, "meta.json"), "w"), indent=1)
        verdict = {0: "MISSED", 1: "detected", 2: "INCONCLUSIVE"}.get(got.get("exit"), "?")
        print(f"{sid}: {verdict} {cr['signatures'][:2]}", flush=True)
        if got.get("exit") != 1:
            missed.append(sid)
    subprocess.run([os.path.join(ROOT, "vcheck"), "build", "debug", "release"], cwd=ROOT, stdout=subprocess.DEVNULL)
    print("missed:", missed)
    return 1 if missed else 0


if __name__ == "__main__":
    sys.exit(main())
