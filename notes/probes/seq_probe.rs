use circ::*;
use std::sync::atomic::{AtomicUsize, Ordering::*};

static DROPS: AtomicUsize = AtomicUsize::new(0);

struct Node {
    id: usize,
    payload: String,
    next: AtomicRc<Node>,
}
impl Drop for Node {
    fn drop(&mut self) {
        DROPS.fetch_add(1, SeqCst);
        eprintln!("drop node {}", self.id);
    }
}
unsafe impl RcObject for Node {
    fn pop_edges(&mut self, out: &mut Vec<Rc<Self>>) {
        out.push(self.next.take());
    }
}
fn node(id: usize) -> Node {
    Node { id, payload: format!("payload-{id}"), next: AtomicRc::null() }
}

fn churn(rounds: usize) {
    for _ in 0..rounds {
        let g = cs();
        g.flush();
        drop(g);
    }
}

#[test]
fn p1_weak_many() {
    let rc = Rc::new(node(1));
    let ws: [Weak<Node>; 3] = rc.weak_many();
    for w in &ws {
        eprintln!("weak_many is_null={}", w.is_null());
    }
}

#[test]
fn p2_atomicweak_cas_hightag() {
    let a = AtomicRc::new(node(2));
    let aw = AtomicWeak::<Node>::null();
    churn(3);
    {
        let g = cs();
        // put a timestamped link in a
        let r = a.load(SeqCst, &g).counted();
        a.store(r, SeqCst, &g); // link now has timestamp = epoch
        let s1 = a.load(SeqCst, &g);
        aw.store(s1.downgrade().counted(), SeqCst, &g);
    }
    churn(5);
    {
        let g = cs();
        let r = a.load(SeqCst, &g).counted();
        a.store(r, SeqCst, &g); // different timestamp
        let s2 = a.load(SeqCst, &g);
        let cur = aw.load(SeqCst, &g);
        eprintln!("ptr_eq(expected,current)={}", s2.downgrade().ptr_eq(cur));
        let res = aw.compare_exchange(s2.downgrade(), Weak::null(), SeqCst, SeqCst, &g);
        eprintln!("cas ok={}", res.is_ok());
    }
}

#[test]
fn p3_child_resurrect() {
    let p = Rc::new(node(10));
    let x = Rc::new(node(11));
    let w = x.downgrade();
    {
        let g = cs();
        p.as_ref().unwrap().next.store(x, SeqCst, &g);
    }
    churn(8);
    drop(p);
    churn(12);
    eprintln!("drops so far = {}", DROPS.load(SeqCst));
    let up = w.upgrade();
    eprintln!("upgrade after child destruct: is_some={}", up.is_some());
    if let Some(rc) = up {
        if let Some(n) = rc.as_ref() {
            eprintln!("deref id={} payload_len={}", n.id, n.payload.len());
        }
    }
}
