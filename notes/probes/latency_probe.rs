use circ::*;
use std::sync::atomic::{AtomicUsize, Ordering::*};
static DROPS: AtomicUsize = AtomicUsize::new(0);
struct Node { next: AtomicRc<Node>, right: AtomicRc<Node>, _v: u64 }
impl Drop for Node { fn drop(&mut self) { DROPS.fetch_add(1, Relaxed); } }
unsafe impl RcObject for Node { fn pop_edges(&mut self, out: &mut Vec<Rc<Self>>) { out.push(self.next.take()); out.push(self.right.take()); } }
fn churn(n: usize) { for _ in 0..n { let g = cs(); g.flush(); drop(g);} }
fn tree(depth: usize) -> Rc<Node> { if depth == 0 { return Rc::null(); } let g = cs(); let n = Rc::new(Node{next: AtomicRc::null(), right: AtomicRc::null(), _v: 0}); n.as_ref().unwrap().next.store(tree(depth-1), SeqCst, &g); n.as_ref().unwrap().right.store(tree(depth-1), SeqCst, &g); n }
fn main() {
    let a: Vec<String> = std::env::args().collect();
    let shape = a[1].as_str();
    let n: usize = a[2].parse().unwrap();
    let age: usize = a[3].parse().unwrap();
    for residue in 0..16 {
        while vhook::epoch() % 16 != residue { churn(1); }
        DROPS.store(0, SeqCst);
        let (head, total) = if shape == "chain" {
            let mut head = Rc::<Node>::null();
            for i in 0..n { let g = cs(); let nn = Rc::new(Node{ next: AtomicRc::null(), right: AtomicRc::null(), _v: i as u64}); nn.as_ref().unwrap().next.store(head, SeqCst, &g); head = nn; }
            (head, n)
        } else { (tree(n), (1usize << n) - 1) };
        churn(age);
        let e0 = vhook::epoch();
        drop(head);
        let mut rounds = 0;
        while DROPS.load(Relaxed) < total && rounds < 1_000_000 { churn(1); rounds += 1; }
        println!("shape={} n={} total={} age={} start_residue={} drop_epoch%16={} advances={} rounds={}", shape, n, total, age, residue, e0 % 16, vhook::epoch() - e0, rounds);
    }
}
