// Final parameters as run on 2026-09-25 (results: d4,d5,d6,d7 violated=true on the pinned tree,
// all false with notes/probes/candidate_fixes.diff applied). Link ages must stay within 3..13 epochs.
use circ::*;
use std::cell::Cell;
use std::sync::atomic::{AtomicBool, AtomicUsize, Ordering::*};
use std::sync::Arc;

struct Node {
    id: usize,
    dead: Arc<AtomicBool>,
    left: AtomicRc<Node>,
    right: AtomicRc<Node>,
}
impl Drop for Node {
    fn drop(&mut self) {
        self.dead.store(true, SeqCst);
    }
}
unsafe impl RcObject for Node {
    fn pop_edges(&mut self, out: &mut Vec<Rc<Self>>) {
        out.push(self.left.take());
        out.push(self.right.take());
    }
}
fn node(id: usize) -> (Node, Arc<AtomicBool>) {
    let d = Arc::new(AtomicBool::new(false));
    (Node { id, dead: d.clone(), left: AtomicRc::null(), right: AtomicRc::null() }, d)
}
fn churn(rounds: usize) {
    for _ in 0..rounds {
        let g = cs();
        g.flush();
        drop(g);
    }
}
thread_local! { static ROLE: Cell<u32> = const { Cell::new(0) }; }
static STAGE: [AtomicUsize; 8] = [const { AtomicUsize::new(0) }; 8];
static TARGET_EPOCH: AtomicUsize = AtomicUsize::new(usize::MAX);
static SITE4_HITS: AtomicUsize = AtomicUsize::new(0);
static SITE4_MODE: AtomicUsize = AtomicUsize::new(0);

fn wait(i: usize, v: usize) {
    while STAGE[i].load(SeqCst) != v {
        std::thread::yield_now();
    }
}
fn set(i: usize, v: usize) {
    STAGE[i].store(v, SeqCst);
}

fn hook(site: u32) {
    let role = ROLE.with(|r| r.get());
    match (site, role) {
        // T1 (role 1) pauses between the two adds of increment_strong
        (1, 1) => {
            // pause only the first time: with the candidate fix the add is retried in a loop
            if STAGE[0].load(SeqCst) == 0 {
                set(0, 1);
                wait(0, 2);
            }
        }
        // T_a (role 2) pauses after reading the epoch in decrement_strong
        (2, 2) => {
            if STAGE[1].load(SeqCst) == 0 {
                set(1, 1);
                wait(1, 2);
            }
        }
        // main collector (role 9) pauses in collect after try_advance once epoch >= target
        (3, 9) => {
            if vhook::epoch() >= TARGET_EPOCH.load(SeqCst) && STAGE[2].load(SeqCst) == 0 {
                set(2, 1);
                wait(2, 2);
            }
        }
        (4, 9) => {
            if SITE4_MODE.load(SeqCst) == 1 {
                let h = SITE4_HITS.fetch_add(1, SeqCst) + 1;
                if h % 130 == 0 && h <= 130 * 5 {
                    eprintln!("main pause h={} epoch={}", h, vhook::epoch());
                    // let the churner advance the epoch once
                    set(3, 1);
                    wait(3, 2);
                    set(3, 0);
                }
                if h == 130 * 5 + 1 {
                    eprintln!("main final pause h={} epoch={}", h, vhook::epoch());
                    set(4, 1);
                    wait(4, 2);
                }
            }
        }
        _ => {}
    }
}
fn install() {
    vhook::HOOK.store(hook as *const () as *mut (), SeqCst); // HOOK: AtomicPtr<()>
    for s in &STAGE {
        s.store(0, SeqCst);
    }
    TARGET_EPOCH.store(usize::MAX, SeqCst);
    SITE4_MODE.store(0, SeqCst);
    SITE4_HITS.store(0, SeqCst);
    ROLE.with(|r| r.set(9));
}

#[test]
fn d4_increment_from_zero_race() {
    install();
    let (n, dead) = node(1);
    let x = Rc::new(n);
    let w = x.downgrade();
    drop(x); // count 0, TD1 pending in main's bag
    let dead2 = dead.clone();
    let t1 = std::thread::spawn(move || {
        ROLE.with(|r| r.set(1));
        let rc = w.upgrade(); // pauses between the two adds
        let got = rc.is_some();
        eprintln!("d4: upgrade is_some={got}");
        set(0, 3);
        wait(0, 4);
        eprintln!("d4: while T1 still holds the Rc: dead={}", dead2.load(SeqCst));
        let v = dead2.load(SeqCst);
        drop(rc);
        drop(w);
        v
    });
    wait(0, 1);
    // K=3..5: token consumed, TD2 still pending; K>=6: destructed during the stall
    churn(std::env::var("K").map(|v| v.parse().unwrap()).unwrap_or(12)); // TD1 runs: sees 1, decrements to 0, defers TD2
    set(0, 2);
    wait(0, 3);
    churn(24); // TD2: 1->0, TD3: destruct
    set(0, 4);
    let violated = t1.join().unwrap();
    eprintln!("d4 violated={violated}");
}

#[test]
fn d5_wsnap_upgrade_vs_cascade() {
    install();
    let (pn, _pd) = node(10);
    let (xn, xdead) = node(11);
    let p = Rc::new(pn);
    let x = Rc::new(xn);
    let w = x.downgrade();
    {
        let g = cs();
        p.as_ref().unwrap().left.store(x, SeqCst, &g);
    }
    churn(8);
    let e_p = vhook::epoch();
    drop(p);
    TARGET_EPOCH.store(e_p + 3, SeqCst);
    let xd = xdead.clone();
    let t = std::thread::spawn(move || {
        wait(2, 1); // main paused inside collect with the bag expired
        let g = cs();
        let ws = w.snapshot(&g);
        let s = ws.upgrade();
        eprintln!("d5: wsnap upgrade is_some={} epoch={}", s.is_some(), vhook::epoch());
        set(2, 2);
        wait(5, 1);
        let v = xd.load(SeqCst);
        eprintln!("d5: guard still active, snapshot held, dead={v}");
        drop(g);
        drop(w);
        v
    });
    churn(12);
    set(5, 1);
    let v = t.join().unwrap();
    eprintln!("d5 violated={v}");
}

#[test]
fn d6_stale_stamp_overwrite() {
    install();
    let (pn, _pd) = node(20);
    let (xn, xdead) = node(21);
    let p = Rc::new(pn);
    let x = Rc::new(xn);
    let q = Arc::new(AtomicRc::from(x.clone()));
    let r = Arc::new(AtomicRc::from(x.clone()));
    {
        let g = cs();
        p.as_ref().unwrap().left.store(x, SeqCst, &g);
    }
    churn(2);
    // T_a: removes Q->X and stalls after reading the epoch
    let q2 = q.clone();
    let ta = std::thread::spawn(move || {
        ROLE.with(|r| r.set(2));
        let old = q2.swap(Rc::null(), SeqCst);
        drop(old); // pauses at site 2
    });
    wait(1, 1);
    churn(4);
    let e_p = vhook::epoch();
    drop(p);
    TARGET_EPOCH.store(e_p + 3, SeqCst);
    let xd = xdead.clone();
    let r2 = r.clone();
    let tr = std::thread::spawn(move || {
        wait(2, 1);
        let g = cs();
        let s = r2.load(SeqCst, &g);
        assert!(!s.is_null());
        // T_b part: unlink R->X and drop (fresh stamp)
        let old = r2.swap(Rc::null(), SeqCst);
        drop(old);
        // release T_a: stale stamp overwrites
        set(1, 2);
        std::thread::sleep(std::time::Duration::from_millis(50));
        set(2, 2); // release main collector
        wait(5, 1);
        let v = xd.load(SeqCst);
        eprintln!("d6: reader pinned, snapshot from load held, dead={v} id={}", if v {0} else {s.as_ref().unwrap().id});
        drop(g);
        v
    });
    churn(12);
    set(5, 1);
    let v = tr.join().unwrap();
    ta.join().unwrap();
    eprintln!("d6 violated={v}");
}

#[test]
fn d7_stale_window_sibling() {
    install();
    // epoch must be >= 16 (window aliasing) and aligned so that never-stamped nodes (epoch bits 0)
    // do not alias to "too recent" during the scenario (residues 14,15,0,1,2 are bad)
    churn(20);
    while vhook::epoch() % 16 != 0 { churn(1); }
    let (pn, _pd) = node(30);
    let p = Rc::new(pn);
    // left: chain of 1000 nodes
    let mut head = Rc::<Node>::null();
    for i in 0..1000 {
        let (n, _) = node(1000 + i);
        let nn = Rc::new(n);
        {
            let g = cs();
            nn.as_ref().unwrap().left.store(head, SeqCst, &g);
        }
        head = nn;
    }
    let (bn, bdead) = node(31);
    let b = Rc::new(bn);
    let r = Arc::new(AtomicRc::from(b.clone()));
    {
        let g = cs();
        p.as_ref().unwrap().left.store(head, SeqCst, &g);
        p.as_ref().unwrap().right.store(b, SeqCst, &g);
    }
    churn(1);
    drop(p);
    SITE4_MODE.store(1, SeqCst);
    // churner: advances the epoch once each time main pauses in the subtree
    let churner = std::thread::spawn(move || {
        loop {
            while STAGE[3].load(SeqCst) != 1 {
                if STAGE[6].load(SeqCst) == 1 {
                    return;
                }
                std::thread::yield_now();
            }
            let e0 = vhook::epoch();
            for _ in 0..4 {
                churn(1);
            }
            eprintln!("d7: churner epoch {} -> {}", e0, vhook::epoch());
            set(3, 2);
            while STAGE[3].load(SeqCst) == 2 {
                std::thread::yield_now();
            }
        }
    });
    let bd = bdead.clone();
    let r2 = r.clone();
    let tr = std::thread::spawn(move || {
        wait(4, 1); // main about to process sibling B with stale window
        let g = cs();
        let s = r2.load(SeqCst, &g);
        assert!(!s.is_null());
        let old = r2.swap(Rc::null(), SeqCst);
        drop(old); // B: 2->1 with fresh stamp
        eprintln!("d7: reader pinned at epoch {}", vhook::epoch());
        set(4, 2);
        wait(5, 1);
        let v = bd.load(SeqCst);
        eprintln!("d7: reader pinned, snapshot held, dead={v}");
        drop(g);
        v
    });
    churn(12);
    set(5, 1);
    let v = tr.join().unwrap();
    set(6, 1);
    churner.join().unwrap();
    eprintln!("d7 violated={v} site4_hits={}", SITE4_HITS.load(SeqCst));
}
