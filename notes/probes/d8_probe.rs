use circ::*;
use std::sync::atomic::{AtomicUsize, Ordering::*};
static DROPS: AtomicUsize = AtomicUsize::new(0);
struct N(AtomicRc<N>);
impl Drop for N { fn drop(&mut self) { DROPS.fetch_add(1, SeqCst); } }
unsafe impl RcObject for N { fn pop_edges(&mut self, out: &mut Vec<Rc<Self>>) { out.push(self.0.take()); } }
#[test]
fn d8() {
    let a: [Rc<N>; 0] = Rc::new_many(N(AtomicRc::null()));
    drop(a);
    let it = Rc::new_many_iter(N(AtomicRc::null()), 0);
    drop(it);
    let [x] = Rc::new_many(N(AtomicRc::null()));
    drop(x);
    for _ in 0..50 { let g = cs(); g.flush(); drop(g); }
    eprintln!("drops={} (3 objects created, all owners gone)", DROPS.load(SeqCst));
}
