use circ::*;
use std::sync::atomic::{AtomicBool, AtomicUsize, Ordering::*};
use std::sync::Arc;

static STAGE: AtomicUsize = AtomicUsize::new(0);
fn wait(v: usize) { while STAGE.load(SeqCst) != v { std::thread::yield_now(); } }
fn set(v: usize) { STAGE.store(v, SeqCst); }
fn churn(n: usize) { for _ in 0..n { let g = cs(); g.flush(); drop(g); } }

struct Leaf { dead: Option<Arc<AtomicBool>>, next: AtomicRc<Leaf> }
impl Drop for Leaf { fn drop(&mut self) { if let Some(d) = &self.dead { d.store(true, SeqCst); } } }
unsafe impl RcObject for Leaf { fn pop_edges(&mut self, out: &mut Vec<Rc<Self>>) { out.push(self.next.take()); } }

static CELL_PTR: AtomicUsize = AtomicUsize::new(0);
static RESULT: AtomicUsize = AtomicUsize::new(0);

struct Big { sdead: Arc<AtomicBool>, next: AtomicRc<Big> }
unsafe impl RcObject for Big { fn pop_edges(&mut self, out: &mut Vec<Rc<Self>>) { out.push(self.next.take()); } }
impl Drop for Big {
    fn drop(&mut self) {
        // user destructor, running inside collection
        let cell: &AtomicRc<Leaf> = unsafe { &*(CELL_PTR.load(SeqCst) as *const AtomicRc<Leaf>) };
        let g = cs();
        let s = cell.load(SeqCst, &g);
        assert!(!s.is_null());
        eprintln!("dtor: loaded snapshot at epoch {}", vhook::epoch());
        set(1); // let T2 unlink S
        wait(2);
        for round in 0..6 {
            for _ in 0..64 { drop(Rc::new(Leaf { dead: None, next: AtomicRc::null() })); }
            eprintln!("dtor: round {round} epoch {}", vhook::epoch());
            set(3 + 2 * round); // T2 churns once
            wait(4 + 2 * round);
        }
        let dead = self.sdead.load(SeqCst);
        eprintln!("dtor: guard still live, snapshot held, S dead={dead}");
        RESULT.store(if dead { 2 } else { 1 }, SeqCst);
        drop(g);
    }
}

#[test]
fn d10() {
    churn(20);
    let sdead = Arc::new(AtomicBool::new(false));
    let cell = Box::leak(Box::new(AtomicRc::new(Leaf { dead: Some(sdead.clone()), next: AtomicRc::null() })));
    CELL_PTR.store(cell as *const _ as usize, SeqCst);
    let big = Rc::new(Big { sdead: sdead.clone(), next: AtomicRc::null() });
    churn(2);
    let cell2: &'static AtomicRc<Leaf> = cell;
    let t2 = std::thread::spawn(move || {
        wait(1);
        let old = cell2.swap(Rc::null(), SeqCst);
        drop(old); // S: count 0, TD(S) deferred in T2's bag
        { let g = cs(); g.flush(); drop(g); }
        eprintln!("T2: unlinked S at epoch {}", vhook::epoch());
        set(2);
        for round in 0..6 {
            wait(3 + 2 * round);
            churn(2);
            eprintln!("T2: churned, epoch {}", vhook::epoch());
            set(4 + 2 * round);
        }
    });
    drop(big);
    churn(12); // TD(Big) runs in one of these collects -> Big::drop
    t2.join().unwrap();
    eprintln!("result={} (2 = snapshot's object destructed while destructor's guard live)", RESULT.load(SeqCst));
}
