use circ::*;
struct Foo;
impl Drop for Foo {
    fn drop(&mut self) {
        let mut g = cs();
        g.reactivate();
        g.reactivate_after(|| ());
        eprintln!("tls dtor: reactivate ok");
    }
}
thread_local! { static FOO: Foo = const { Foo }; }
#[test]
fn d11() {
    std::thread::spawn(|| {
        FOO.with(|_| ());
        let _g = cs();
    }).join().unwrap();
    eprintln!("joined");
}
