use circ::*;
use std::sync::atomic::{AtomicUsize, Ordering::*};
static DROPS: AtomicUsize = AtomicUsize::new(0);
struct Node { next: AtomicRc<Node>, _v: u64 }
impl Drop for Node { fn drop(&mut self) { DROPS.fetch_add(1, Relaxed); } }
unsafe impl RcObject for Node { fn pop_edges(&mut self, out: &mut Vec<Rc<Self>>) { out.push(self.next.take()); } }
fn main() {
    let a: Vec<String> = std::env::args().collect();
    let n: usize = a[1].parse().unwrap();
    let stack: usize = a[2].parse().unwrap();
    let h = std::thread::Builder::new().stack_size(stack).spawn(move || {
        let mut head = Rc::<Node>::null();
        for i in 0..n { let nn = Rc::new(Node{ next: AtomicRc::from(head), _v: i as u64}); head = nn; }
        for _ in 0..8 { let g = cs(); g.flush(); drop(g);} 
        let e0 = 0;
        drop(head);
        let mut rounds = 0usize;
        while DROPS.load(Relaxed) < n && rounds < 10_000_000 { let g = cs(); g.flush(); drop(g); rounds += 1; }
        println!("n={} drops={} rounds={} e0={}", n, DROPS.load(Relaxed), rounds, e0);
    }).unwrap();
    h.join().unwrap();
}
