#!/usr/bin/env python3
"""Generates MANIFEST.json from the job tables (keeps the manifest and the driver consistent)."""
import json, os, subprocess, sys
ROOT = os.path.dirname(os.path.abspath(__file__))
sys.path.insert(0, ROOT)
from checks_config import CHECKS

TECH = {
    "C01": "runtime monitoring: ownership ledger + liveness cookies + cell scans at destruct events under a seeded serialized scheduler with stall rules (mode S), free-running delay injection (mode P), scripted choreography d4; ASan in thorough; scripted scenarios d14 (work under an outer guard) and d16 (guards in a thread-local destructor after the handle is gone) ending with Snapshot::counted",
    "C02": "runtime monitoring: ledger of (guard, snapshot, origin) vs destruct/dealloc events, liveness cookies, serialized scheduler with stall rules, role-based focused workloads, scripted choreographies d5-d7; ASan in thorough; scenarios d13/d14/d16; choreographed late-reader profile c02g; the repository's own Harris list / DoubleLink queue as monitored workloads",
    "C03": "runtime monitoring: ledger of weak holders vs DEALLOC events, count-word reads through weak handles, quiescent weak-count audit; serialized scheduler + delay injection; ASan in thorough; choreographed profiles c03g/c03h; scenario d14 with WeakSnapshot holders",
    "C04": "runtime monitoring: exactly-once counters on pop_edges/Drop/dealloc online + quiescent conservation audit (counts == owning cells, nothing live after roots released) after every execution; thread tear-down child processes (objects released in TLS destructors)",
    "C05": "runtime monitoring: online upgrade-history oracle (result vs destruct-begun / DESTRUCTED_SET stamps, monotonicity of failures) in the serialized total order; boundary subset in mode P; sequential sweep of upgrades around the recursion cut-offs of deep chains; scenario d14 with upgraded snapshots",
    "C06": "runtime monitoring: epoch-advance count between head drop and last destructor vs 12*(1+ceil(n/1024)) over shapes x sizes x link ages x 16 residues; DAG / shared-survivor / swap-based pop_edges / re-acquired-node shapes; choreographed c02g (cascade skips referenced children)",
    "C07": "runtime monitoring: child processes on configured stack sizes (exit status, drops==n, flat peak stack); concurrent count-word traffic on the nodes being reclaimed; flatness in n and in backlog size",
    "C08": "runtime monitoring: call/return histories of cell ops checked for linearizability (Wing-Gong, P-compositional per cell) + boundary checks + quiescent count audit; focused profile c08r (CAS-ers against re-stampers)",
    "C09": "runtime monitoring: same history checker and boundary checks for AtomicWeak with expected values obtained three ways + weak-count audit; focused profile c09r",
    "C10": "runtime monitoring: sequential enumeration of constructors/prefixes/release orders with count-word introspection and destructor counters; bulk ops in concurrent programs; concurrent bulk profile c10b with ledger attribution to bulk-born objects; owners regained through weak_many shares",
    "C11": "runtime monitoring: reference bit model vs shimmed Tagged ops (enumeration) + public API at all 16 epoch residues; concurrent CAS-vs-restamp profiles (stamp invisible in CAS results)",
    "C12": "runtime monitoring: reference model vs shimmed State/Modular (enumeration) + end-to-end cascade-vs-defer decisions observed at destructor boundary; the same decision under choreographed concurrency (scenario d7, profile c02g) where the true stamp age is known",
    "C13": "runtime monitoring: closure execution vs set of guards registered at deferral (private collectors) under serialized scheduler with stalls in pin/try_advance/push_bag/collect; mode P; reference-counting layer on top: c16rc, c02g, c03g, scenarios d13/d14/d16",
    "C14": "runtime monitoring: epoch sampler at every yield point (monotone, single steps, global-announced in {0,1} for registered guards); per-holder checks in mode P; also global - (epoch a live guard was taken at) in {0,1}; scenarios d14/d16",
    "C15": "runtime monitoring: per-closure execution counters with checksummed captures of all sizes/alignments across thread exit and collector drop; bounded rounds; survivor rounds of varying shape incl. behind a parked participant with a backlog; panicking reactivate_after closures",
    "C16": "runtime monitoring: three-line pinned-state model checked through local_state after every guard op; enumeration of guard programs + serialized multi-thread runs; scenarios d10/d13/d14/d15/d16 (guards in destructors during collection, kept beyond it, in TLS destructors)",
    "C17": "runtime monitoring: queue call/return histories (unique values) checked for FIFO linearizability + conservation under serialized scheduler with stalls at queue atomics; mode P",
    "C18": "runtime monitoring: membership-interval checker over list traversals + finalize-once counters under serialized scheduler; mode P",
    "C19": "runtime monitoring: exhaustive pairs/triples over a pointer pool vs Option<&T> model and Eq/Ord/Hash laws; one pool per referent alignment 8/16/64 with tags up to the largest; model independent of the library's as_ref",
    "C20": "runtime monitoring: child processes with thread-local destructors calling the API in both TLS orders, debug and release (exit status, TLS dtor count, drop totals after bounded rounds); retirement through one guard around a flush / 100 times; first-use race of 4-12 threads in a fresh process",
}
LEVEL = {
    "default": ("exploration", "held on the executions / inputs actually produced (counts, sites preempted, residues covered are in the evidence); nothing is claimed for schedules or inputs no run produced"),
}
DESIGN_REF = {p: f"DESIGN.md section 8 ({p})" for p in TECH}


def commits():
    out = subprocess.run(["git", "-C", "/repo", "log", "--format=%h %s"], stdout=subprocess.PIPE, text=True).stdout
    return [l.split()[0] for l in out.splitlines() if l.split(" ", 1)[1].startswith("verif:")]


def main():
    props = [json.loads(l) for l in open(os.path.join(ROOT, "properties.jsonl"))]
    checks, na = [], []
    na_reasons = {}
    p = os.path.join(ROOT, "not_applicable.json")
    if os.path.exists(p):
        na_reasons = json.load(open(p))
    for pr in props:
        pid = pr["id"]
        if pid in CHECKS:
            cat, text = LEVEL["default"]
            checks.append(dict(
                property_id=pid,
                quick_cmd=f"./vcheck {pid} --tier quick",
                thorough_cmd=f"./vcheck {pid} --tier thorough",
                evidence_file=f"/verif/evidence/{pid}.json",
                replay_cmd_template="./vcheck replay {path}",
                engine="vh",
                level_claimed=dict(category=cat, text=text, design_ref=DESIGN_REF[pid]),
                level_note="trusted base: the hooks do not change behaviour; the ledger under-approximates owners; mode S is SC at yield-point granularity; see evidence.assumptions",
                technique=TECH[pid],
            ))
        else:
            na.append(dict(property_id=pid, reason=na_reasons.get(pid, "check not built yet in this session (planned, see DESIGN.md section 8)")))
    m = dict(
        version=1,
        setup_cmd="cd /verif && ./vcheck build debug release",
        hooks=dict(
            guard="cargo feature circ_verif",
            enable='the harness crate depends on circ = { path = "/repo", features = ["circ_verif"] }',
            baseline_off_cmd="cd /repo && (cargo nextest run --workspace --no-fail-fast --tool-config-file pb:/w/lib/nextest.toml --profile pb --test-threads 8 --offline || cargo test --workspace --no-fail-fast --offline)",
            source_commits=commits(),
            add_only=True,
        ),
        engines=[dict(name="vh", path="/verif/harness", serves_properties=sorted(CHECKS.keys()),
                      kind_free_text="Rust harness (serialized scheduler at yield-point hooks, delay injection, ledger/cookie/exactly-once/audit monitors, history checkers, child-process runners) driven by /verif/vcheck (Python 3)")],
        checks=checks,
        notes="Runtime monitoring only. Known findings: /verif/known_findings.json. Seeded mutants: /verif/seeded/.",
        not_applicable=na,
    )
    json.dump(m, open(os.path.join(ROOT, "MANIFEST.json"), "w"), indent=1)
    print("checks:", len(checks), "not_applicable:", len(na))


if __name__ == "__main__":
    main()
