"""Job tables of the checks (which harness sub-commands decide which property)."""

RC_ASSUME = [
    "hooks (cargo feature circ_verif) do not change the behaviour of the library; they only add yield points and event callbacks",
    "the ledger is an under-approximation of the true owners (records are added after the producing call returned and removed before the releasing call is invoked), so a record present at a destruct/dealloc event proves a legitimate holder",
    "mode S explores sequentially consistent interleavings at yield-point granularity; weaker-than-SC behaviours are only probed by Miri on small programs",
]


def rc_jobs(profile, prop, relevant, s_secs=(20, 300), p_secs=(8, 90), asan=True, miri=False, extra=None, focused=None):
    jobs = []
    if focused:
        jobs += [
            dict(name=f"{focused}-S", variant="debug", stage=0,
                 args=["rc", "--profile", focused, "--mode", "S", "--prop", prop, "--relevant", relevant],
                 shards=dict(quick=8, thorough=16), secs=dict(quick=s_secs[0], thorough=s_secs[1])),
            dict(name=f"{focused}-P-release", variant="release", stage=1, threads=3,
                 args=["rc", "--profile", focused, "--mode", "P", "--prop", prop, "--relevant", relevant],
                 shards=dict(quick=2, thorough=5), secs=dict(quick=p_secs[0], thorough=p_secs[1])),
        ]
    jobs += [
        dict(name=f"{profile}-S", variant="debug", stage=0,
             args=["rc", "--profile", profile, "--mode", "S", "--prop", prop, "--relevant", relevant],
             shards=dict(quick=8 if focused else 16, thorough=16), secs=dict(quick=s_secs[0], thorough=s_secs[1])),
        dict(name=f"{profile}-P-release", variant="release", stage=1, threads=3,
             args=["rc", "--profile", profile, "--mode", "P", "--prop", prop, "--relevant", relevant],
             shards=dict(quick=3 if focused else 5, thorough=5), secs=dict(quick=p_secs[0], thorough=p_secs[1])),
        dict(name=f"{profile}-P-debug", variant="debug", stage=1, threads=3, tiers=["thorough"],
             args=["rc", "--profile", profile, "--mode", "P", "--prop", prop, "--relevant", relevant],
             shards=dict(thorough=5), secs=dict(thorough=p_secs[1])),
    ]
    if asan:
        jobs.append(dict(name=f"{profile}-P-asan", variant="asan", stage=2, threads=3, tiers=["thorough"],
                         args=["rc", "--profile", profile, "--mode", "P", "--prop", prop, "--relevant", relevant],
                         shards=dict(thorough=5), secs=dict(thorough=p_secs[1])))
        jobs.append(dict(name=f"{profile}-S-asan", variant="asan", stage=3, tiers=["thorough"],
                         args=["rc", "--profile", profile, "--mode", "S", "--prop", prop, "--relevant", relevant],
                         shards=dict(thorough=16), secs=dict(thorough=p_secs[1])))
    if extra:
        jobs += extra
    return jobs


RULE_RC = ("executions = random API programs (2-4 threads, <=40 ops each, 2-3 root cells, prefilled chains/trees/diamonds, "
           "seeded epoch residue and link age) run under a seeded serialized schedule with stall rules (mode S) or free-running "
           "with injected delays (mode P); distinct = distinct hash of the sequence of (thread, site, next thread) context "
           "switches and op boundaries (mode S) / of the op logs (mode P); non-trivial = ")

CHECKS = {
    "C01": dict(
        jobs=rc_jobs("c01", "C01", "shared_destruct,inc_from_zero", focused="c01f"),
        rule=RULE_RC + "the execution contained a destruct attempt on an object that >=2 threads touched, or an increment from a zero count",
        accept=["C01"], assumptions=RC_ASSUME, floor=dict(quick=50, thorough=500),
    ),
    "C02": dict(
        jobs=rc_jobs("c02", "C02", "snap_destruct", focused="c02f"),
        rule=RULE_RC + "the execution contained a destruct attempt (root or cascade) on an object for which a Snapshot record existed",
        accept=["C02"], assumptions=RC_ASSUME, floor=dict(quick=50, thorough=500),
    ),
    "C03": dict(
        jobs=rc_jobs("c03", "C03", "weak_dealloc", focused="c03f"),
        rule=RULE_RC + "the execution deallocated an object that had at least one weak holder",
        accept=["C03"], assumptions=RC_ASSUME, floor=dict(quick=50, thorough=500),
    ),
    "C04": dict(
        jobs=rc_jobs("c04", "C04", "shared_destruct,cascade"),
        rule=RULE_RC + "an object shared between threads or reached by a cascade was destructed; every execution ends with the two quiescent audits",
        accept=["C04"], assumptions=RC_ASSUME, floor=dict(quick=50, thorough=500),
    ),
    "C05": dict(
        jobs=rc_jobs("c05", "C05", "upgrade_race", focused="c05f"),
        rule=RULE_RC + "an upgrade whose interval overlaps or follows a destruct attempt on its target",
        accept=["C05"], assumptions=RC_ASSUME, floor=dict(quick=20, thorough=200),
    ),
    "C08": dict(
        jobs=rc_jobs("c08", "C08", "overlap_mutators,cas_epoch_differs"),
        rule=RULE_RC + "a cell history with >=2 overlapping mutators, or a CAS whose expected value carried another epoch stamp than the stored word",
        accept=["C08"], accept_sig=[r"^C04\|audit-strong-mismatch"], assumptions=RC_ASSUME, floor=dict(quick=50, thorough=500),
    ),
    "C09": dict(
        jobs=rc_jobs("c09", "C09", "overlap_mutators,wcas_epoch_differs"),
        rule=RULE_RC + "an AtomicWeak history with >=2 overlapping mutators, or a CAS whose expected value carried another epoch stamp than the stored word",
        accept=["C09"], accept_sig=[r"^C04\|audit-weak-mismatch"], assumptions=RC_ASSUME, floor=dict(quick=50, thorough=500),
    ),
}
