"""Job tables of the checks (which harness sub-commands decide which property)."""

RC_ASSUME = [
    "hooks (cargo feature circ_verif) do not change the behaviour of the library; they only add yield points and event callbacks",
    "the ledger is an under-approximation of the true owners (records are added after the producing call returned and removed before the releasing call is invoked), so a record present at a destruct/dealloc event proves a legitimate holder",
    "mode S explores sequentially consistent interleavings at yield-point granularity; weaker-than-SC behaviours are only probed by Miri on small programs",
]


def rc_jobs(profile, prop, relevant, s_secs=(20, 300), p_secs=(8, 90), asan=True, miri=False, extra=None, focused=None):
    jobs = []
    if focused:
        jobs += [
            dict(name=f"{focused}-S", variant="debug", stage=0,
                 args=["rc", "--profile", focused, "--mode", "S", "--prop", prop, "--relevant", relevant],
                 shards=dict(quick=8, thorough=16), secs=dict(quick=s_secs[0], thorough=s_secs[1])),
            dict(name=f"{focused}-P-release", variant="release", stage=1, threads=3,
                 args=["rc", "--profile", focused, "--mode", "P", "--prop", prop, "--relevant", relevant],
                 shards=dict(quick=2, thorough=5), secs=dict(quick=p_secs[0], thorough=p_secs[1])),
        ]
    jobs += [
        dict(name=f"{profile}-S", variant="debug", stage=0,
             args=["rc", "--profile", profile, "--mode", "S", "--prop", prop, "--relevant", relevant],
             shards=dict(quick=8 if focused else 16, thorough=16), secs=dict(quick=s_secs[0], thorough=s_secs[1])),
        dict(name=f"{profile}-P-release", variant="release", stage=1, threads=3,
             args=["rc", "--profile", profile, "--mode", "P", "--prop", prop, "--relevant", relevant],
             shards=dict(quick=3 if focused else 5, thorough=5), secs=dict(quick=p_secs[0], thorough=p_secs[1])),
        dict(name=f"{profile}-P-debug", variant="debug", stage=1, threads=3, tiers=["thorough"],
             args=["rc", "--profile", profile, "--mode", "P", "--prop", prop, "--relevant", relevant],
             shards=dict(thorough=5), secs=dict(thorough=p_secs[1])),
    ]
    if asan:
        jobs.append(dict(name=f"{profile}-P-asan", variant="asan", stage=2, threads=3, tiers=["thorough"],
                         args=["rc", "--profile", profile, "--mode", "P", "--prop", prop, "--relevant", relevant],
                         shards=dict(thorough=5), secs=dict(thorough=p_secs[1])))
        jobs.append(dict(name=f"{profile}-S-asan", variant="asan", stage=3, tiers=["thorough"],
                         args=["rc", "--profile", profile, "--mode", "S", "--prop", prop, "--relevant", relevant],
                         shards=dict(thorough=16), secs=dict(thorough=p_secs[1])))
    if extra:
        jobs += extra
    return jobs


RULE_RC = ("executions = random API programs (2-4 threads, <=40 ops each, 2-3 root cells, prefilled chains/trees/diamonds, "
           "seeded epoch residue and link age) run under a seeded serialized schedule with stall rules (mode S) or free-running "
           "with injected delays (mode P); distinct = distinct hash of the sequence of (thread, site, next thread) context "
           "switches and op boundaries (mode S) / of the op logs (mode P); non-trivial = ")

def choreo_job(prop, relevant, profile="c02g"):
    return dict(name=f"{profile}-S", variant="debug", stage=0,
                args=["rc", "--profile", profile, "--mode", "S", "--prop", prop, "--relevant", relevant],
                shards=dict(quick=6, thorough=16), secs=dict(quick=20, thorough=300))


def scen_job(which, prop):
    return dict(name=f"scen-{which}", variant="debug", stage=0,
                args=["scen", "--which", which, "--prop", prop, "--nshards", "4", "--tier", "{tier}"],
                shards=dict(quick=4, thorough=4))


def d14_job(which, prop):
    return dict(name=f"scen-{which}", variant="debug", stage=0, args=["scen", "--which", which, "--prop", prop, "--tier", "{tier}"], shards=dict(quick=1, thorough=1))


def seq_job(check, variant="debug", tiers=("quick", "thorough"), name=None):
    return dict(name=name or f"seq-{check}-{variant}", variant=variant, stage=0, tiers=list(tiers),
                args=["seq", "--check", check, "--tier", "{tier}"], shards=dict(quick=1, thorough=1))


def proc_job(check, variant, nshards=8):
    return dict(name=f"{check}-{variant}", variant=variant, stage=0,
                args=[check, "--tier", "{tier}", "--nshards", str(nshards)], shards=dict(quick=nshards, thorough=nshards),
                watchdog_factor=20)


SEQ_ASSUME = ["single driver thread: epoch advances are produced only by the check itself, so counts are deterministic",
              "hooks (cargo feature circ_verif) do not change the behaviour of the library"]

CHECKS = {
    "C01": dict(
        jobs=rc_jobs("c01", "C01", "shared_destruct,inc_from_zero", focused="c01f", extra=[choreo_job("C01", "shared_destruct,inc_from_zero", "c01g"), scen_job("c01", "C01"), d14_job("d14s", "C01"), d14_job("d16", "C01")]),
        rule=RULE_RC + "the execution contained a destruct attempt on an object that >=2 threads touched, or an increment from a zero count",
        accept=["C01"], assumptions=RC_ASSUME, floor=dict(quick=50, thorough=500),
    ),
    "C02": dict(
        jobs=rc_jobs("c02", "C02", "snap_destruct", focused="c02f", extra=[choreo_job("C02", "snap_destruct"), scen_job("c02", "C02"), dict(name="scen-d13", variant="debug", stage=0, args=["scen", "--which", "d13", "--prop", "C02"], shards=dict(quick=1, thorough=1)), dict(name="scen-d10", variant="debug", stage=0, args=["scen", "--which", "d10", "--prop", "C02"], shards=dict(quick=1, thorough=1)), d14_job("d14s", "C02"), d14_job("d16", "C02")]),
        rule=RULE_RC + "the execution contained a destruct attempt (root or cascade) on an object for which a Snapshot record existed; plus scripted scenario d14: a reader keeps a Snapshot under an outer "
             "guard while it re-activates / re-creates / flushes inner guards or retires bursts of 70 objects under the outer guard (10 kinds of work) and another thread unlinks the object and drives collection rounds in lock step",
        accept=["C02"], assumptions=RC_ASSUME, floor=dict(quick=50, thorough=500),
    ),
    "C03": dict(
        jobs=rc_jobs("c03", "C03", "weak_dealloc", focused="c03f", extra=[choreo_job("C03", "weak_dealloc", "c03g"), choreo_job("C03", "weak_dealloc", "c03h"), d14_job("d14w", "C03")]),
        rule=RULE_RC + "the execution deallocated an object that had at least one weak holder; plus scenario d14 with a WeakSnapshot held under the outer guard (see C02)",
        accept=["C03"], assumptions=RC_ASSUME, floor=dict(quick=50, thorough=500),
    ),
    "C04": dict(
        jobs=rc_jobs("c04", "C04", "shared_destruct,cascade") + [proc_job("c20", "debug"), proc_job("c20", "release")],
        rule=RULE_RC + "an object shared between threads or reached by a cascade was destructed; every execution ends with the two quiescent audits; plus the thread tear-down children of C20 "
             "(objects released from thread-local destructors before / after the participant handle is gone must all be destructed by a surviving thread)",
        accept=["C04"], accept_sig=[r"^C20\|garbage-of-dead-thread-not-reclaimed"], assumptions=RC_ASSUME, floor=dict(quick=50, thorough=500),
    ),
    "C05": dict(
        jobs=rc_jobs("c05", "C05", "upgrade_race", focused="c05f", extra=[choreo_job("C05", "upgrade_race"), choreo_job("C05", "upgrade_race", "c01g"), scen_job("c05", "C05"), seq_job("c05", "debug"), seq_job("c05", "release"), d14_job("d14u", "C05")]),
        rule=RULE_RC + "an upgrade whose interval overlaps or follows a destruct attempt on its target; plus a sequential sweep on chains longer than the recursion cut-off (n up to 3100): weak pointers to the nodes "
             "around depths 1024/2048/3072 (and others) are upgraded every 9th collection round with a phase that sweeps over the cases, released at once or held for some rounds",
        accept=["C05"], accept_sig=[r"origin=WeakSnapshot::upgrade", r"via=(Weak|WeakSnapshot)::upgrade"], assumptions=RC_ASSUME, floor=dict(quick=20, thorough=200),
    ),
    "C08": dict(
        jobs=rc_jobs("c08", "C08", "overlap_mutators,cas_epoch_differs", focused="c08r"),
        rule=RULE_RC + "a cell history with >=2 overlapping mutators, or a CAS whose expected value carried another epoch stamp than the stored word",
        accept=["C08"], accept_sig=[r"^C04\|audit-strong-mismatch", r"^C04\|leak-unowned-object"], assumptions=RC_ASSUME, floor=dict(quick=50, thorough=500),
    ),
    "C09": dict(
        jobs=rc_jobs("c09", "C09", "overlap_mutators,wcas_epoch_differs", focused="c09r"),
        rule=RULE_RC + "an AtomicWeak history with >=2 overlapping mutators, or a CAS whose expected value carried another epoch stamp than the stored word",
        accept=["C09"], accept_sig=[r"^C04\|audit-weak-mismatch"], assumptions=RC_ASSUME, floor=dict(quick=50, thorough=500),
    ),
    "C06": dict(
        jobs=[seq_job("c06", "release"), seq_job("c06", "debug", tiers=("thorough",)), choreo_job("C06", "snap_destruct")],
        rule="inputs = (shape, n, link age, epoch residue mod 16, position of an externally held node): chains n=1..50 000 (thorough: 1 000 000), "
             "binary trees up to depth 17, all 16 residues for n<=5000; for each the number of global-epoch advances between dropping the head and "
             "the last destructor is compared with 12*(1+ceil(n/1024)); plus shapes with shared nodes (two-level skip list, ladder), chains whose every node also points to an externally "
             "held node that its holder keeps using (re-stamping) or not, a tree with a held leaf, and chains whose head / node at the recursion cut-off is re-acquired through a Weak and released "
             "again 0..3 rounds after the head was dropped; plus the choreographed late-reader-against-a-due-cascade programs (c02g), where a cascade must skip a child that a pinned "
             "thread still references; distinct = distinct inputs; every input is non-trivial (it runs a real cascade)",
        accept=["C06"], accept_sig=[r"^C02\|destruct-while-snapshot\|.*\|child"], assumptions=SEQ_ASSUME + ["the bound 12*(1+ceil(n/1024)) is my reading of 'a small constant plus n/1024' in units of grace periods (a grace period was measured at 3-15 advances)"],
        floor=dict(quick=100, thorough=300),
    ),
    "C07": dict(
        jobs=[proc_job("c07", "release"), proc_job("c07", "debug")],
        rule="inputs = (build, shape in chain/tree/comb/dag, n up to 1 000 000 (thorough 4 000 000), thread stack size); each runs in a child process that "
             "builds the structure, drops it on a thread with that stack, drives collection rounds and reports drops==n; death by signal = overflow; shapes chain-weak-traffic / chain-upgrade-traffic: "
             "three more threads keep cloning+dropping / upgrading+dropping Weak pointers to the nodes the cascade is about to reach (every lost race inside the cascade must not cost stack); "
             "distinct = distinct inputs, all non-trivial",
        accept=["C07"], assumptions=["stack sizes that must survive: release 256 KiB-8 MiB, debug (opt-level 1) 1-8 MiB; smaller sizes are probed for the open finding"],
        floor=dict(quick=20, thorough=40),
    ),
    "C10": dict(
        jobs=[seq_job("c10", "debug"), seq_job("c10", "release")] + rc_jobs("c04", "C10", "any_destruct", s_secs=(8, 60), p_secs=(4, 30), asan=False)[:1]
             + [dict(name="c10b-S", variant="debug", stage=0, args=["rc", "--profile", "c10b", "--mode", "S", "--prop", "C10", "--relevant", "any_destruct"],
                     shards=dict(quick=10, thorough=16), secs=dict(quick=12, thorough=200)),
                dict(name="c10b-P-release", variant="release", stage=1, threads=3, args=["rc", "--profile", "c10b", "--mode", "P", "--prop", "C10", "--relevant", "any_destruct"],
                     shards=dict(quick=3, thorough=5), secs=dict(quick=5, thorough=60))],
        rule="sequential: every N in {0,1,2,3,8,64} for new_many/weak_many, counts {0..5,64,1000} x every consumed prefix x drop/abort for new_many_iter, "
             "seeded release orders through drop/finalize/cell; after every step strong == owners left and the destructor count is 0 until the last owner "
             "is gone and 1 after bounded rounds; owners regained through a weak_many share before / while / after the pending destruction attempt (held 0..5 rounds); "
             "plus the bulk ops inside the concurrent RC programs (ledger kind bulk; profile c10b = bulk makers / first-downgrade-by-weak_many against strong churn, "
             "any ledger / leak / WEAKED violation on an object that went through a bulk call counts); distinct = distinct (ctor, N, prefix, release) inputs / schedules",
        accept=["C10"], accept_sig=[r"\|bulk$", r"via=Rc::weak_many"], assumptions=SEQ_ASSUME, floor=dict(quick=50, thorough=100),
    ),
    "C11": dict(
        jobs=[seq_job("c11", "debug"), seq_job("c11", "release", tiers=("thorough",))]
             + [dict(name=f"{pf}-S", variant="debug", stage=0, args=["rc", "--profile", pf, "--mode", "S", "--prop", "C11", "--relevant", rel],
                     shards=dict(quick=8, thorough=16), secs=dict(quick=10, thorough=120)) for pf, rel in (("c08r", "cas_epoch_differs"), ("c09r", "wcas_epoch_differs"))],
        rule="(i) shimmed Tagged ops on synthetic words: alignments 1..64 x addresses {0, align, 2^47-a, 2^56-a, 2^60-a, random} x tags 0..2*align x all 16 timestamps "
             "against a reference bit model; (ii) public API on real objects with payload alignments 1..64: every tag, stored at 16 epoch residues and loaded back, "
             "tagged/timestamped null; (iii) concurrent cell programs (profiles c08r/c09r: CAS-ers against re-stampers) in which the same pointer is re-written at other epochs while CASes are in flight: "
             "a compare_exchange must never fail with current ptr_eq expected (the stamp must stay invisible); distinct = distinct (alignment, address, tag, timestamp) inputs / schedules",
        accept=["C11"], accept_sig=[r"^C0[89]\|cas-failed-though-equal"], assumptions=SEQ_ASSUME, floor=dict(quick=1000, thorough=1000),
    ),
    "C12": dict(
        jobs=[seq_job("c12", "debug"), seq_job("c12", "release", tiers=("thorough",)), scen_job("c12", "C12"), choreo_job("C12", "snap_destruct")],
        rule="(i) every count-word updater on boundary and random field values; (ii) the modular decision for current epochs 3..80 and around 2^16, 2^32, 2^40 x true ages -1..64; "
             "(iii) end-to-end parent->child cascade-vs-defer decisions at all 16 residues x link ages x child stamp ages, observed at the destructor boundary; "
             "(iv) the same decision under concurrency, where the true age of a stamp is known from the choreography: a sibling released in the current epoch while the disposal of an earlier "
             "sibling's long subtree re-pins across several advances (scenario d7, all residues), and late readers / unlinkers against a due cascade stalled inside its child loop (c02g): "
             "a cascade child destructed while a pinned thread references it = a stamp of true age < 3 classified as old enough; distinct = distinct inputs / schedules",
        accept=["C12"], accept_sig=[r"^C02\|destruct-while-snapshot\|.*\|child"], assumptions=SEQ_ASSUME, floor=dict(quick=1000, thorough=1000),
    ),
    "C19": dict(
        jobs=[seq_job("c19", "debug"), seq_job("c19", "release")],
        rule="all pairs and triples over three pools of 17-22 pointers each, one per referent alignment 8 / 16 / 64 (null, nulls with tags up to the largest the alignment allows, A, A with small and the largest tags, "
             "A loaded at 3 epochs, B equal to A, C, D; the model of an entry is what the harness built, and is_null / as_ref are checked against it first) for Rc and Snapshot: "
             "==, partial_cmp, cmp, two hashers vs Option<&T>; Eq/Ord/Hash laws; ptr_eq = identity+tag; plus a pool of 12 pointers to a PartialEq/PartialOrd-only referent "
             "(NaN objects, clones, tags, two write epochs, equal and different floats): ==, !=, partial_cmp, <, <=, >, >= vs Option<&T>; distinct = distinct ordered pairs", exhaustive=True,
        accept=["C19"], assumptions=SEQ_ASSUME, floor=dict(quick=100, thorough=100),
    ),
    "C20": dict(
        jobs=[proc_job("c20", "debug"), proc_job("c20", "release")],
        rule="inputs = (build, API call made from a thread-local destructor (19 kinds), TLS order relative to circ's handle (before/after/no other use/both), threads, main-thread exit); "
             "each runs in a child process; oracle: exit 0, no panic, every TLS destructor ran, all objects destructed after <=400 rounds on the surviving thread; the calls include retiring through one guard before and after "
             "a flush / 100 times; case first-use-race: 4-12 threads enter their first critical section within a few hundred ns of each other in a process that never used the library; distinct = distinct inputs",
        accept=["C20"], assumptions=["a wall-clock timeout of a child is recorded as inconclusive, never as a violation"],
        floor=dict(quick=100, thorough=100),
    ),
}


def ebr_jobs(profile, prop, s_secs=(15, 240), p_secs=(6, 60), extra=None):
    jobs = [
        dict(name=f"{profile}-S", variant="debug", stage=0,
             args=["ebr", "--profile", profile, "--mode", "S", "--prop", prop],
             shards=dict(quick=16, thorough=16), secs=dict(quick=s_secs[0], thorough=s_secs[1])),
        dict(name=f"{profile}-P-release", variant="release", stage=1, threads=3,
             args=["ebr", "--profile", profile, "--mode", "P", "--prop", prop],
             shards=dict(quick=5, thorough=5), secs=dict(quick=p_secs[0], thorough=p_secs[1])),
        dict(name=f"{profile}-P-debug", variant="debug", stage=1, threads=3, tiers=["thorough"],
             args=["ebr", "--profile", profile, "--mode", "P", "--prop", prop],
             shards=dict(thorough=5), secs=dict(thorough=p_secs[1])),
        dict(name=f"{profile}-P-asan", variant="asan", stage=2, threads=3, tiers=["thorough"],
             args=["ebr", "--profile", profile, "--mode", "P", "--prop", prop],
             shards=dict(thorough=5), secs=dict(thorough=p_secs[1])),
    ]
    return jobs + (extra or [])


def ql_jobs(which, s_secs=(15, 240), p_secs=(6, 60)):
    return [
        dict(name=f"{which}-S", variant="debug", stage=0, args=["ql", "--which", which, "--mode", "S"],
             shards=dict(quick=16, thorough=16), secs=dict(quick=s_secs[0], thorough=s_secs[1])),
        dict(name=f"{which}-P-release", variant="release", stage=1, threads=3, args=["ql", "--which", which, "--mode", "P"],
             shards=dict(quick=5, thorough=5), secs=dict(quick=p_secs[0], thorough=p_secs[1])),
        dict(name=f"{which}-P-asan", variant="asan", stage=2, threads=3, tiers=["thorough"], args=["ql", "--which", which, "--mode", "P"],
             shards=dict(thorough=5), secs=dict(thorough=p_secs[1])),
    ]


RULE_EBR = ("executions = random programs of 2-4 participants of a private collector (pin/unpin in any order, nested guards, reactivate, reactivate_after, "
            "defer of closures of 9 shapes, flush, manual collect/try_advance, participants registering/leaving, handle dropped before its guards, early thread exit) "
            "under a seeded serialized schedule with stall rules inside pin/try_advance/push_bag/collect/finalize/queue/list (mode S) or free-running with delays (mode P); "
            "distinct = distinct schedule hash (S) / op-log hash (P); non-trivial = ")
EBR_ASSUME = ["guards are registered with the monitor after pin() returned and deregistered before drop/reactivate, so a registered guard proves an active critical section",
              "mode S explores SC interleavings at yield-point granularity",
              "hooks (cargo feature circ_verif) do not change the behaviour of the library"]

CHECKS.update({
    "C13": dict(jobs=ebr_jobs("c13", "C13") + [
                    dict(name="scen-d13", variant="debug", stage=0, args=["scen", "--which", "d13", "--prop", "C13"], shards=dict(quick=1, thorough=1)),
                    dict(name="c16rc-S", variant="debug", stage=0, args=["rc", "--profile", "c16rc", "--mode", "S", "--prop", "C13", "--relevant", "any_destruct"],
                         shards=dict(quick=10, thorough=16), secs=dict(quick=20, thorough=200)),
                    choreo_job("C13", "snap_destruct"), d14_job("d14", "C13"), d14_job("d16", "C13"), d14_job("d15", "C13"), choreo_job("C13", "weak_dealloc", "c03g")],
                accept_sig=[r"^C02\|destruct-while-snapshot", r"^C02\|deref-dead", r"^C03\|dealloc-while-weak-snapshot"], rule=RULE_EBR + "a closure was deferred while at least one foreign guard was registered; plus the reference-counting layer on top: c16rc, the late-reader choreography c02g and scenarios d13/d14 (what a pinned thread references must outlive its critical section) and d15 (a guard created by a destructor during a collection and kept beyond it protects what is loaded under it while the thread retires and collects)",
                accept=["C13"], assumptions=EBR_ASSUME, floor=dict(quick=50, thorough=500)),
    "C14": dict(jobs=ebr_jobs("c14", "C14") + rc_jobs("c14", "C14", "cascade", s_secs=(8, 60), p_secs=(4, 30), asan=False)[:1] + [d14_job("d14", "C14"), d14_job("d16", "C14"), d14_job("d15", "C14")],
                rule=RULE_EBR + "the global epoch advanced while a foreign guard was registered (every yield point samples the global epoch, every registered guard's announced epoch and the epoch each live guard was taken at: "
                     "global - taken must stay in {0,1} for as long as the guard lives); plus scenario d14 (work under an outer guard, see C02) and d15 (a guard created by a destructor during a collection and kept beyond it: the global epoch moves at most one step while it lives)",
                accept=["C14"], assumptions=EBR_ASSUME, floor=dict(quick=50, thorough=500)),
    "C15": dict(jobs=ebr_jobs("c15", "C15") + [d14_job("d15", "C15")], accept_sig=[r"^C04\|garbage-not-reclaimed-within-bound", r"^C04\|leak-object-at-end"], rule=RULE_EBR + "at least one closure was deferred (each execution ends with survivor rounds or with dropping the collector and checks every closure's counter == 1; one survivor variant first seals a burst of 20-300 "
                     "single-closure bags in one epoch, lets three advances pass and then parks a participant inside a critical section: everything deferred before must still run within the bound); plus scenario d15 variant 2: a thread releases a guard that a destructor created during a collection, retires more objects and exits - the surviving thread must see all of them destructed (the reference-counting layer's deferred destructions are deferred functions)",
                accept=["C15"], assumptions=EBR_ASSUME, floor=dict(quick=50, thorough=500)),
    "C16": dict(jobs=ebr_jobs("c16", "C16", extra=[
                    dict(name="c16-enum", variant="release", stage=0, args=["c16enum", "--len", "{len}"], shards=dict(quick=1, thorough=1)),
                    dict(name="scen-d10", variant="debug", stage=0, args=["scen", "--which", "d10", "--prop", "C16"], shards=dict(quick=1, thorough=1)),
                    dict(name="scen-d13", variant="debug", stage=0, args=["scen", "--which", "d13", "--prop", "C16"], shards=dict(quick=1, thorough=1)),
                    d14_job("d14", "C16"), d14_job("d16", "C16"), d14_job("d15", "C16"),
                    dict(name="c16rc-S", variant="debug", stage=0, args=["rc", "--profile", "c16rc", "--mode", "S", "--prop", "C16", "--relevant", "any_destruct"],
                         shards=dict(quick=6, thorough=16), secs=dict(quick=15, thorough=200)),
                ]),
                rule=RULE_EBR + "every execution (the pinned-state model is evaluated after every guard operation); plus the exhaustive enumeration of all single-thread guard programs up to length 6 (quick) / 8 (thorough)",
                accept=["C16"], assumptions=EBR_ASSUME, floor=dict(quick=50, thorough=500)),
    "C17": dict(jobs=ql_jobs("c17"),
                rule="executions = 2-4 threads x 3-8 push/try_pop/try_pop_if ops with unique values on the collector's queue type (through the shim) under serialized schedules with stalls at the queue's atomics (S) / free-running (P); "
                     "each history (plus the final drain) is checked for FIFO linearizability and conservation; distinct = schedule hash / history hash; non-trivial = operations of different threads overlap",
                accept=["C17"], assumptions=EBR_ASSUME[1:], floor=dict(quick=50, thorough=500)),
    "C18": dict(jobs=ql_jobs("c18") + [
                    dict(name="c18e-S", variant="debug", stage=0, args=["ebr", "--profile", "c18e", "--mode", "S", "--prop", "C14"],
                         shards=dict(quick=8, thorough=16), secs=dict(quick=15, thorough=240)),
                    dict(name="c18e-P-release", variant="release", stage=1, threads=3, args=["ebr", "--profile", "c18e", "--mode", "P", "--prop", "C14"],
                         shards=dict(quick=3, thorough=5), secs=dict(quick=6, thorough=60))],
                accept_sig=[r"^C14\|pinned-participant-sees-more-than-one-advance"],
                rule="executions = 2-4 threads x 3-9 insert/delete/traverse ops on the participant list type (through the shim); every non-stalled traversal must contain every element inserted before it began and not deleted before it ended, "
                     "must not contain never-inserted or already-deleted elements, and every element is finalized and freed exactly once; distinct = schedule hash / history hash; non-trivial = a traversal overlaps an insert or delete; plus the real registry: private-collector programs with participants registering and leaving back-to-back while others advance, where an overlooked pinned participant shows as global - announced > 1",
                accept=["C18"], assumptions=EBR_ASSUME[1:], floor=dict(quick=50, thorough=500)),
})


# ---- the repository's own client data structures as workloads --------------------------------
def ds_jobs(prop):
    out = []
    for which in ("harris", "dlq"):
        out += [
            dict(name=f"ds-{which}-S", variant="debug", stage=0, args=["ds", "--which", which, "--mode", "S", "--prop", prop],
                 shards=dict(quick=3, thorough=8), secs=dict(quick=15, thorough=200)),
            dict(name=f"ds-{which}-P-release", variant="release", stage=1, threads=4, args=["ds", "--which", which, "--mode", "P", "--prop", prop],
                 shards=dict(quick=2, thorough=4), secs=dict(quick=8, thorough=90)),
            dict(name=f"ds-{which}-P-asan", variant="asan", stage=2, threads=4, tiers=["thorough"], args=["ds", "--which", which, "--mode", "P", "--prop", prop],
                 shards=dict(thorough=4), secs=dict(thorough=90)),
        ]
    return out


for _p in ("C01", "C02", "C04"):
    CHECKS[_p]["jobs"] += ds_jobs(_p)
    CHECKS[_p]["rule"] += ("; plus the repository's own Harris-list map and DoubleLink queue (ported with monitored payloads: cookie check on every node access, "
                           "exactly-once counters, per-key / FIFO history checks, final nothing-live audit) under the same schedulers")
CHECKS["C02"]["accept_sig"] = CHECKS["C02"].get("accept_sig", []) + [r"^C02\|"]

# ---- Miri (thorough tier only): UB / data-race interpreter on small programs -------------------
def miri_job(name, args, secs=240, shards=16, stage=5, extra_flags=" -Zmiri-disable-stacked-borrows"):
    return dict(name=name, variant="miri", stage=stage, tiers=["thorough"], args=args, miriflags="-Zmiri-seed={shard} -Zmiri-preemption-rate=0.03" + extra_flags,
                shards=dict(thorough=shards), secs=dict(thorough=secs), watchdog_factor=4)


for _p in ("C01", "C02", "C03"):
    CHECKS[_p]["jobs"] += [
        # without the Stacked-Borrows retags (see DESIGN.md 12.4): real accesses only
        miri_job("tiny-S-miri", ["rc", "--profile", "tiny", "--mode", "S", "--prop", _p, "--relevant", "any_destruct"], shards=8, extra_flags=" -Zmiri-disable-stacked-borrows"),
        miri_job("tiny-P-miri", ["rc", "--profile", "tiny", "--mode", "P", "--prop", _p, "--relevant", "any_destruct"], shards=8, extra_flags=" -Zmiri-disable-stacked-borrows"),
    ]
for _p in ("C13", "C15"):
    CHECKS[_p]["jobs"] += [
        miri_job("ebr-tiny-P-miri", ["ebr", "--profile", "tiny", "--mode", "P", "--prop", _p], shards=10),
        miri_job("ebr-tiny-S-miri", ["ebr", "--profile", "tiny", "--mode", "S", "--prop", _p], shards=6),
    ]
CHECKS["C17"]["jobs"].append(miri_job("c17-P-miri", ["ql", "--which", "c17", "--mode", "P"]))
CHECKS["C18"]["jobs"].append(miri_job("c18-P-miri", ["ql", "--which", "c18", "--mode", "P"]))
